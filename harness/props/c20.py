"""C20 - envelope parsing keeps the body byte-exact and the headers intact.

Correspondence of model/Envelope.v with slimta.envelope.Envelope (parse,
flatten, copy, pickling, encode_7bit) and the property oracle on the
implementation.  The correspondence on the well-formed class is also what tests
the theorems' hypothesis about Python's `email` package (codec_ok): it is
tested here, not proved."""
import re, copy, pickle, itertools, base64, quopri, traceback, collections
from io import BytesIO
from email.parser import BytesParser
from email.generator import BytesGenerator
from email.policy import SMTP
from email.encoders import encode_base64, encode_quopri

from vp.core import B

import slimta.envelope as envmod
from slimta.envelope import Envelope

ASSUMPTIONS = [
    'well-formed header block = at least one field "Name: value"; name = printable ASCII without ":"; value bytes = TAB, '
    'printable ASCII, 8-bit (other control characters are outside the class: email treats VT FF FS GS RS as line breaks and drops lone CRs); '
    'every line <= 78 bytes; folded continuation lines begin with SP/TAB and are not white-space only; each line ends CRLF or LF; '
    'the block ends at an empty line (CRLF or LF)',
    'oracle is judged on the strict class of the statement (value not empty, no line ending in white space); the model class also '
    'allows trailing white space / empty first value line, compared as correspondence only',
    'hypothesis of the theorems about Python\'s email package (BytesParser/BytesGenerator, policy SMTP) on that class: parser leaves '
    'no payload, generator writes the same fields with CRLF - tested by this run on every generated block, not proved',
    'pickle = identity on the model; tested with pickle.HIGHEST_PROTOCOL (what disk/redis/cloud stores use) and the default protocol',
    '"decodes to the same text" for 7-bit conversion: the encoded body, decoded with base64 / quopri, equals the original body '
    'after both are normalised CRLF -> LF (email reads the body with universal newlines, so base64 carries LF line ends), and is valid UTF-8',
    'encoder contract (email.encoders.encode_base64 / encode_quopri output is ASCII and decodes back) is a hypothesis of C20_7bit_ascii; '
    'the model is given the stdlib encoder\'s output for the body as an oracle input',
]

CRLF = b'\r\n'
NO_REFOLD = SMTP.clone(refold_source='none')


# ------------------------------------------------------------------ implementation side
def impl_parse_flatten(data):
    e = Envelope('sender@example.com', ['r1@example.com', 'r2@example.net'])
    e.parse(data)
    return e, e.flatten()


def email_codec(header_data):
    """Python's email package as the model's hparse/hgen: (generated headers, generated left-over payload or None)"""
    msg = BytesParser(policy=SMTP).parse(BytesIO(header_data), True)

    def gen(m):
        # mirrors Envelope._msg_generator: policy SMTP; if email cannot re-fold an over-long
        # malformed line, the headers as received (refold_source='none')
        fp = BytesIO()
        try:
            BytesGenerator(fp, policy=SMTP).flatten(m, False)
        except Exception:
            fp = BytesIO()
            BytesGenerator(fp, policy=NO_REFOLD).flatten(m, False)
        return fp.getvalue()
    extra = None
    if msg.get_payload():
        new = copy.deepcopy(msg)
        msg.set_payload('')
        for h in new.keys():
            del new[h]
        extra = gen(new)
    return gen(msg), extra


def exc_name(ex):
    return type(ex).__name__


# What _msg_generator's first attempt did in THIS call, observed from outside (module-namespace patch, no hook in /repo):
# every BytesGenerator the envelope module creates logs (refold_source of its policy, exception type or None).
class _ObservedGenerator(BytesGenerator):
    log = []

    def flatten(self, msg, *a, **k):
        try:
            r = BytesGenerator.flatten(self, msg, *a, **k)
        except BaseException as ex:
            _ObservedGenerator.log.append((getattr(self.policy, 'refold_source', None), type(ex).__name__))
            raise
        _ObservedGenerator.log.append((getattr(self.policy, 'refold_source', None), None))
        return r


if getattr(envmod, 'BytesGenerator', None) is BytesGenerator:
    envmod.BytesGenerator = _ObservedGenerator
LAST = {'first_attempt_raised': None}


def observed_flatten(e):
    """e.flatten() and whether the first generator attempt of that very call raised (None: not observable)"""
    del _ObservedGenerator.log[:]
    flat = e.flatten()
    log = list(_ObservedGenerator.log)
    return flat, ((log[0][1] is not None) if log else None)


def deep_call(f, depth):
    """f() from inside `depth` nested Python calls: email's refold raises RecursionError relative to the CURRENT stack,
    so the raise / no-raise boundary of the first attempt is exercised on purpose"""
    if depth <= 0:
        return f()
    return deep_call(f, depth - 1)


NEST_RE = re.compile(br'[(<"\[]')


def recursion_prone(data):
    """a header line with 50 or more of one of ( < " [ : whether email's refold of it ends in RecursionError depends on
    the stack depth of the call and on which of email's helper regexes are already compiled, i.e. it is not a function
    of the input.  The statement promises only never-raise (and the body) for such over-long lines."""
    m = re.search(br'\r?\n\s*?\n', data)
    head = data[:m.end(0)] if m else data
    for line in head.split(b'\n'):
        if len(line) > 78:
            c = collections.Counter(NEST_RE.findall(line))
            if c and max(c.values()) >= 50:
                return True
    return False


# ------------------------------------------------------------------ generators
NAMES = [b'Subject', b'From', b'To', b'Cc', b'Date', b'Message-Id', b'Received', b'X-Test', b'x-lower', b'X-8bit',
         b'Content-Type', b'MIME-Version', b'Content-Disposition', b'DKIM-Signature', b'Reply-To', b'X',
         b"X!#$%&'*+-.^_`|~0", b'Return-Path', b'List-Unsubscribe', b'content-type', b'SUBJECT', b'Content-Transfer-Encoding',
         b'From', b'Subject', b'Received', b'X-Test', b'>From', b'Fromage', b'X-' + b'n' * 40]
VPIECES = [b'a', b'hello', b'world', b' ', b' ', b'\t', b'<user@example.com>', b'"Quoted Name"', b';', b'=', b',',
           'é'.encode(), 'ü'.encode(), '日本'.encode(), b'\xff', b'\xfe\xff', b'\xe9', b'\x80', b'\xc3', b'=?utf-8?q?x?=',
           b'=?utf-8?b?w6k=?=', b'text/plain; charset=utf-8', b'multipart/mixed; boundary="b1"', b'message/rfc822',
           b'1.0', b'Mon, 1 Jan 2024 00:00:00 +0000', b'from a.example by b.example', b'x' * 20, b'(comment)', b':', b'::', b'~',
           b'text/html', b'multipart/signed; protocol="p"; boundary=zz', b'message/delivery-status', b'7bit', b'base64', b'!', b'.', b'..']
BLANKS = [b' ', b'\t', b'  ', b' \t', b'\t ', b'        ']
BPIECES = [b'line of text\r\n', b'text no eol', b'\r\n', b'\n', b'\r', b'\x00', b'.\r\n', b'..\r\n', b'.\n', b'.', b'\r\n\r\n', b'\n\n',
           'héllo wörld\r\n'.encode(), b'\xff\xfe', b'\x80', b' \r\n', b'\t\n', b' ', b'Subject: not a header\r\n', b'X: y\n',
           b'\r\r\n', b'\n\r', b'\x0b', b'\x0c', b'--boundary\r\n', b'From me\r\n', b'=3D', b'x' * 100, b'\r\n.\r\n', b'\x1c', b'\x85']


def gen_text(rng, maxlen, no_lead_blank, need_nonblank):
    """value text of at most maxlen bytes out of VPIECES"""
    for _ in range(20):
        out = b''
        k = rng.choice([0, 1, 1, 2, 3, 4, 6, 9])
        for _ in range(k):
            p = rng.choice(VPIECES)
            if len(out) + len(p) > maxlen:
                break
            out += p
        if rng.random() < 0.15 and out:
            out = out + rng.choice(VPIECES) * 30
            out = out[:maxlen]
        if no_lead_blank:
            out = out.lstrip(b' \t')
        if need_nonblank and not out.strip(b' \t'):
            continue
        return out
    return b'x'


def gen_fields(rng):
    """list of (name, first value text, [continuation line contents])"""
    fs = []
    for _ in range(rng.choice([1, 1, 2, 3, 4, 6, 10])):
        name = rng.choice(NAMES)
        if rng.random() < 0.1:
            name = bytes(rng.choice(b'!"#$%&\'()*+,-./0123456789;<=>?@ABCXYZ[\\]^_`abcxyz{|}~') for _ in range(rng.randrange(1, 12)))
        strict = rng.random() < 0.75          # the statement's class: value not empty, no line ending in white space
        fval = gen_text(rng, 78 - len(name) - 2, True, strict)
        conts = []
        for _ in range(rng.choice([0, 0, 0, 1, 1, 2, 4])):
            lead = rng.choice(BLANKS)
            conts.append(lead + gen_text(rng, 78 - len(lead), False, True))
        if strict:
            fval = fval.rstrip(b' \t')
            conts = [c.rstrip(b' \t') for c in conts]
        fs.append((name, fval, conts))
    return fs


def strict_class(fs):
    for name, fval, conts in fs:
        if not fval:
            return False
        for l in [fval] + conts:
            if l[-1:] in (b' ', b'\t'):
                return False
    return True


def render(fs, rng, mode):
    def eol():
        if mode == 'crlf':
            return CRLF
        if mode == 'lf':
            return b'\n'
        return rng.choice([CRLF, b'\n'])
    out = b''
    for name, fval, conts in fs:
        out += name + b': ' + fval + eol()
        for c in conts:
            out += c + eol()
    return out, eol()


def hnorm_py(fs):
    out = b''
    for name, fval, conts in fs:
        out += name + b': ' + fval + CRLF
        for c in conts:
            out += c + CRLF
    return out


def gen_body(rng):
    k = rng.choice([0, 1, 2, 3, 5, 8])
    b = b''.join(rng.choice(BPIECES) for _ in range(k))
    if rng.random() < 0.2:
        b += bytes(rng.randrange(256) for _ in range(rng.randrange(1, 40)))
    return b


def features(fs, body, mode):
    f = []
    if any(c for _, _, c in fs):
        f.append('folded')
    if any(max(v + b''.join(c)) > 127 for _, v, c in fs if v + b''.join(c)):
        f.append('8bit-header')
    names = [n.lower() for n, _, _ in fs]
    if len(set(names)) < len(names):
        f.append('dup-name')
    f.append('eol-' + mode)
    if b'\x00' in body:
        f.append('body-nul')
    if re.search(br'\r(?!\n)', body):
        f.append('body-lone-cr')
    if body[:1] in (b'\r', b'\n'):
        f.append('body-leading-blank')
    if re.search(br'(^|\n)\.', body):
        f.append('body-dot-line')
    if body and max(body) > 127:
        f.append('body-8bit')
    if not body:
        f.append('body-empty')
    return f


# ------------------------------------------------------------------ streams
def run_boundary(ctx, maxlen, alphabet=b'\r\n a\t'):
    """every byte string over the alphabet up to maxlen: model search vs re.search(_HEADER_BOUNDARY)"""
    cases = []
    for L in range(0, maxlen + 1):
        for tup in itertools.product(alphabet, repeat=L):
            cases.append(bytes(tup))
    outs = ctx.model.batch('c20_boundary', cases)
    pat = envmod._HEADER_BOUNDARY
    for c, o in zip(cases, outs):
        m = re.search(pat, c)
        io = (c[:m.end(0)], c[m.end(0):]) if m else None
        mo = (B(o[0]), B(o[1])) if o else None
        if io != mo:
            ctx.mismatch('boundary', dict(data=c), io, mo)
        ctx.evaluations += 1
    ctx.count('boundary-exhaustive', len(cases))
    return len(cases)


def check_no_raise(ctx, data, kind, case=None, light=False, deep=False):
    """weaker claim for arbitrary bytes: parse / flatten / copy / pickle never raise.  Returns (env, flat) or None.
    case: what to record instead of the data itself (big inputs); light: one pickle protocol, one copy;
    deep: flatten also from inside 200 nested calls.  For recursion-prone inputs (see recursion_prone) the copies are
    compared on the body only: which of the two generator attempts writes the headers may differ from call to call."""
    step = 'parse'
    body_only = recursion_prone(data)
    LAST['first_attempt_raised'] = None
    try:
        e = Envelope('sender@example.com', ['r1@example.com', 'r2@example.net'])
        e.parse(data)
        step = 'flatten'
        flat, LAST['first_attempt_raised'] = observed_flatten(e)
        if deep:
            step = 'flatten (called from a stack 200 frames deep)'
            dflat = deep_call(e.flatten, 200)
            if dflat[1] != flat[1]:
                ctx.fail('c20:body-changed', case or dict(kind=kind, data=data), 'flatten() from a deep stack gives body %r, from a shallow one %r' % (dflat[1][:200], flat[1][:200]))
        step = 'copy'
        c = e.copy()
        cf = c.flatten()
        if not light:
            e.copy(['x@example.com']).flatten()
        step = 'pickle'
        for proto in ((pickle.HIGHEST_PROTOCOL,) if light else (pickle.HIGHEST_PROTOCOL, pickle.DEFAULT_PROTOCOL)):
            p = pickle.loads(pickle.dumps(e, proto))
            pf = p.flatten()
            if (pf[1] != flat[1] if body_only else pf != flat) or p.sender != e.sender or p.recipients != e.recipients:
                ctx.fail('c20:pickle-changes-envelope', dict(case or dict(kind=kind, data=data), protocol=proto),
                         'pickled envelope flattens to %r, original %r' % (pf[0][-200:] + pf[1][:200], flat[0][-200:] + flat[1][:200]))
        if (cf[1] != flat[1] if body_only else cf != flat):
            ctx.fail('c20:copy-changes-envelope', case or dict(kind=kind, data=data),
                     'copy flattens to %r, original %r' % (cf[0][-200:] + cf[1][:200], flat[0][-200:] + flat[1][:200]))
        return e, flat
    except Exception as ex:
        key = 'c20:raises-on-arbitrary-bytes'
        # classification only: raised while email re-folds a header line that is (or, written as "Name: value", becomes) longer than 78 bytes
        if step.startswith('flatten') and any(f.name in ('_fold', 'fold_binary') for f in traceback.extract_tb(ex.__traceback__)):
            key = 'c20:flatten-raises-refolding-long-header-line'
        ctx.fail(key, dict(case or dict(kind=kind, data=data), step=step),
                 '%s() raised %s: %s' % (step, exc_name(ex), str(ex)[:300]))
        return None


def oracle_codec_jobs(datas):
    """for the oracle-codec correspondence: header part by an independent split, email's answers for it"""
    jobs = []
    for d in datas:
        m = re.search(br'\r?\n\s*?\n', d)
        hd = d[:m.end(0)] if m else d
        try:
            g, extra = email_codec(hd)
        except Exception:
            jobs.append(None)
            continue
        jobs.append([d, g, [extra] if extra is not None else []])
    return jobs


def run_arbitrary(ctx, datas, kind):
    flats = []
    for d in datas:
        r = check_no_raise(ctx, d, kind)
        flats.append(r[1] if r else None)
    jobs = oracle_codec_jobs(datas)
    idx = [i for i, j in enumerate(jobs) if j is not None and flats[i] is not None]
    outs = ctx.model.batch('c20_parse_oracle', [jobs[i] for i in idx])
    for i, o in zip(idx, outs):
        mo = (B(o[0]), B(o[1]))
        merged = bool(jobs[i][2])
        ctx.evaluated((kind, datas[i]), nontrivial=(merged or b'\n' in datas[i]))
        ctx.count('arbitrary:%s:%s' % (kind, 'payload-merged' if merged else 'plain'))
        if recursion_prone(datas[i]):
            ctx.count('arbitrary:%s:recursion-prone-compared-on-body-only' % kind)
            if flats[i][1] != mo[1]:
                ctx.mismatch('parse-with-email-as-codec', dict(kind=kind, data=datas[i]), flats[i][1], mo[1])
        elif flats[i] != mo:
            ctx.mismatch('parse-with-email-as-codec', dict(kind=kind, data=datas[i]), flats[i], mo)


def run_exhaustive_small(ctx, maxlen, alphabet=b'a: \r\n'):
    cases = []
    for L in range(0, maxlen + 1):
        for tup in itertools.product(alphabet, repeat=L):
            cases.append(bytes(tup))
    run_arbitrary(ctx, cases, 'exhaustive')
    return len(cases)


def gen_arbitrary(rng, good):
    r = rng.random()
    if r < 0.25:
        return bytes(rng.randrange(256) for _ in range(rng.randrange(0, 120)))
    if r < 0.5:
        alpha = rng.choice([b'a: \r\n', b'ab:\t \r\n\xff\x00', b'\r\n \t\x0b\x0c', b'X:-\r\n .'])
        return bytes(rng.choice(alpha) for _ in range(rng.randrange(0, 60)))
    if r < 0.6:
        return rng.choice(NAMES) + b': ' + b'y' * rng.choice([77, 78, 79, 200, 1000, 5000]) + rng.choice([b'', b'\r\n', b'\r\n\r\nbody'])
    if r < 0.7:
        return rng.choice([b'no header here\r\n\r\nbody', b'\r\n\r\nbody', b'', b': x\r\n\r\nb', b' leading continuation\r\nA: 1\r\n\r\nb',
                           b'A: 1\r\n \r\n\r\nbody', b'A: 1\nnot a header\n\nbody', b'A: 1\r\n\t\r\nB: 2\r\n\r\nbody', b'From me\r\nA: 1\r\n\r\nb',
                           b'A: 1\x0c2\r\n\r\nb', b'A: 1\r2\r\n\r\nb', b'A: 1', b'A: 1\r\n', b'A', b'A:', b'A : 1\r\n\r\nb', b'\xff: 1\r\n\r\nb'])
    # mutate a well-formed message
    d = bytearray(rng.choice(good)) if good else bytearray(b'A: 1\r\n\r\nb')
    for _ in range(rng.choice([1, 1, 2, 4])):
        op = rng.randrange(3)
        pos = rng.randrange(len(d) + 1)
        if op == 0:
            d[pos:pos] = bytes([rng.choice(b'\r\n \t:\x00\xff\x0c') if rng.random() < 0.7 else rng.randrange(256)])
        elif op == 1 and d:
            del d[min(pos, len(d) - 1)]
        elif d:
            d[min(pos, len(d) - 1)] = rng.randrange(256)
    return bytes(d)


def gen_overlong(rng):
    """one field whose line is longer than 78 bytes, made of address / MIME / encoded-word / 8-bit pieces
    (email re-folds such lines through its structured header parsers)"""
    name = rng.choice([b'Subject', b'To', b'From', b'Date', b'Message-Id', b'Content-Type', b'Content-Disposition', b'MIME-Version',
                       b'Received', b'X-Foo', b'Content-Transfer-Encoding', b'Sender', b'Reply-To', b'Cc', b'8'])
    v = b''
    while len(name) + 2 + len(v.split(b'\n')[0]) <= 78:
        v += rng.choice(VPIECES + [b' ', b' '])
    for _ in range(rng.randrange(0, 12)):
        v += rng.choice(VPIECES + [b' ', b' ', b'\r\n ', b'\n\t'])
    return name + b': ' + v + rng.choice([b'\r\n\r\nbody', b'\n\nbody\n', b'\r\n'])


def mutation_probe(e, flat):
    """changing recipients / headers of a copy must not show in the original (observe_at: recipients / headers of copies)"""
    c = e.copy()
    c.recipients.append('extra@example.com')
    c.headers['X-Mutated'] = 'yes'
    if len(c.headers.keys()) > 1:
        del c.headers[c.headers.keys()[0]]
    c.client['ip'] = '203.0.113.9'
    problems = []
    if e.flatten() != flat:
        problems.append('headers of original changed with the copy')
    if 'extra@example.com' in e.recipients:
        problems.append('recipient list shared with the copy')
    if e.client.get('ip') == '203.0.113.9':
        problems.append('client dict shared with the copy')
    c2 = e.copy(['new@example.com'])
    if c2.recipients != ['new@example.com'] or c2.sender != e.sender or c2.flatten() != flat:
        problems.append('copy(new_rcpts) wrong: %r %r' % (c2.recipients, c2.sender))
    c3 = e.copy([])
    if c3.recipients != e.recipients or c3.recipients is e.recipients:
        problems.append('copy([]) recipients %r' % (c3.recipients,))
    return problems


def run_structured(ctx, n):
    rng = ctx.rng
    cases = []
    for _ in range(n):
        fs = gen_fields(rng)
        mode = rng.choice(['crlf', 'crlf', 'lf', 'mixed'])
        H, blank = render(fs, rng, mode)
        body = gen_body(rng)
        cases.append((fs, mode, H, blank, body))
    datas = [H + blank + body for (fs, mode, H, blank, body) in cases]
    m_pf = ctx.model.batch('c20_parse_flatten', datas)
    m_fix = ctx.model.batch('c20_refix', datas)
    m_hn = ctx.model.batch('c20_hnorm', [c[2] for c in cases])
    m_cp = ctx.model.batch('c20_copy', [[d, [b'r1@example.com', b'r2@example.net'], nr] for d, nr in
                                        zip(datas, itertools.cycle([[], [b'new@example.com']]))])
    good = []
    for (fs, mode, H, blank, body), data, opf, ofix, ohn, ocp in zip(cases, datas, m_pf, m_fix, m_hn, m_cp):
        strict = strict_class(fs)
        want = (hnorm_py(fs) + CRLF, body)
        case = dict(kind='structured', data=data, header_block=H, blank=blank, body=body, strict_class=strict)
        feats = features(fs, body, mode)
        for f in feats:
            ctx.count('feat:' + f)
        ctx.count('class:' + ('strict' if strict else 'superset'))
        ctx.evaluated(('s', data), nontrivial=bool(set(feats) - {'eol-crlf'}))
        ctx.sample(dict(kind='structured', data=data, expect_headers=want[0], expect_body=body), cap=3)
        good.append(data)
        # model agrees with the independent rendering (the model's class codec is what the theorems are instantiated with)
        mo = (B(opf[1]), B(opf[2])) if opf[0] == 0 else ('out-of-class',)
        if mo != want or ohn != (('B', tuple(hnorm_py(fs))),):
            ctx.mismatch('model-vs-reference-rendering', case, want, mo)
        r = check_no_raise(ctx, data, 'structured')
        if r is None:
            continue
        e, flat = r
        if flat != mo:
            ctx.mismatch('parse-flatten', case, flat, mo)
        if flat != want and strict:
            key = 'c20:body-changed' if flat[1] != body else 'c20:headers-changed'
            ctx.fail(key, case, 'flatten() = %r, expected %r' % (flat, want))
        # fixed point
        try:
            e2 = Envelope()
            e2.parse(flat[0] + flat[1])
            flat2 = e2.flatten()
        except Exception as ex:
            flat2 = ('raises', exc_name(ex))
        mo2 = (B(ofix[1]), B(ofix[2])) if ofix[0] == 0 else ('out-of-class',)
        if flat2 != mo2:
            ctx.mismatch('refix', case, flat2, mo2)
        if flat2 != flat and strict:
            ctx.fail('c20:not-a-fixed-point', case, 're-parsing flatten() output gives %r, first %r' % (flat2, flat))
        # copies
        nr = [] if ocp[1] == (('B', tuple(b'r1@example.com')), ('B', tuple(b'r2@example.net'))) else ['new@example.com']
        c = e.copy(list(nr))
        ic = (list(c.recipients), c.flatten())
        mc = ([bytes(x[1]).decode() for x in ocp[1]], (B(ocp[2]), B(ocp[3]))) if ocp[0] == 0 else None
        if ic != mc:
            ctx.mismatch('copy', case, ic, mc)
        probs = mutation_probe(e, flat)
        if probs:
            ctx.fail('c20:copy-shares-state', case, '; '.join(probs))
    # the oracle-codec correspondence on the same inputs (email as hparse/hgen)
    jobs = oracle_codec_jobs(datas)
    outs = ctx.model.batch('c20_parse_oracle', [j for j in jobs if j])
    k = 0
    for (fs, mode, H, blank, body), data, j in zip(cases, datas, jobs):
        if not j:
            continue
        o = outs[k]; k += 1
        # the codec hypothesis itself, stated on email's answers
        if j[2] or j[1] != hnorm_py(fs) + CRLF:
            ctx.mismatch('email-codec-hypothesis', dict(kind='structured', data=data, header_part=H + blank),
                         dict(generated=j[1], leftover_payload=j[2]), dict(generated=hnorm_py(fs) + CRLF, leftover_payload=[]))
    return good


# ------------------------------------------------------------------ over-long lines among ordinary headers (the no-refold fallback of _msg_generator)
def gen_long_field(rng):
    """one field whose first line is longer than 78 bytes; many of these cannot be re-folded by email (structured
    header parsers raise), the others are re-folded"""
    r = rng.randrange(12)
    if r == 0:
        return (b'To', b'a@b.c;,:<>' * rng.randrange(8, 13), [])
    if r == 1:
        return (rng.choice([b'Message-ID', b'Message-Id', b'In-Reply-To']), b'<' * rng.randrange(70, 100), [])
    if r == 2:
        return (rng.choice([b'To', b'Cc', b'From']), b'(unclosed comment ' + b'x' * rng.randrange(60, 90), [])
    if r == 3:
        return (b'8', b'lo=(commd\xff=?utf-8?b?w6k=?==?utf-8?b?w6k=?==?utf-8?b?w6k=?==?utf-8\xff?b?wurn-Pa', [])
    if r == 4:
        return (rng.choice([b'Reply-To', b'Sender']), b'; from a.example by b.example<user@example.com>,' + b'x' * 40 + b'= :..,:~::\x80', [])
    if r == 5:
        return (b'Subject', b'word ' * rng.randrange(16, 30) + b'end', [])                      # re-folded
    if r == 6:
        return (b'X-Long', b'x' * rng.randrange(79, 200), [])                                    # cannot be folded, kept
    if r == 7:
        return (b'Received', b'from a.example by b.example ' * rng.randrange(3, 6) + b'; Mon, 1 Jan 2024 00:00:00 +0000', [])
    # random pieces (as gen_overlong), single first line, optional ordinary continuation line
    name = rng.choice([b'Subject', b'To', b'From', b'Date', b'Message-Id', b'Content-Type', b'Content-Disposition', b'MIME-Version',
                       b'Received', b'X-Foo', b'Sender', b'Reply-To', b'Cc'])
    v = b''
    while len(name) + 2 + len(v) <= 78 + rng.randrange(0, 40):
        v += rng.choice(VPIECES + [b' ', b' '])
    v = v.lstrip(b' \t') or b'x' * 90
    conts = []
    if rng.random() < 0.3:
        lead = rng.choice(BLANKS)
        conts.append(lead + gen_text(rng, 78 - len(lead), False, True))
    return (name, v, conts)


def email_folds(header_part):
    """email as the oracle of the model's fold_smtp: for every stored header, in order, what policy SMTP's
    fold_binary gives ([bytes]) or [] when it raises"""
    msg = BytesParser(policy=SMTP).parse(BytesIO(header_part), True)
    out = []
    for name, value in msg.raw_items():
        try:
            out.append([SMTP.fold_binary(name, value)])
        except Exception:
            out.append([])
    return out


def split_fields(block):
    """independent splitter of a generated header block (without the blank line) into its fields"""
    out = []
    for line in block.split(b'\r\n')[:-1]:
        if line[:1] in (b' ', b'\t') and out:
            out[-1] += line + CRLF
        else:
            out.append(line + CRLF)
    return out


def run_fallback(ctx, n):
    rng = ctx.rng
    cases = []
    while len(cases) < n:
        k = rng.randrange(1, 5)
        ordinary = []
        while len(ordinary) < k:
            ordinary += [f for f in gen_fields(rng) if strict_class([f])]
        ordinary = ordinary[:k]
        if rng.random() < 0.4 and k >= 2 and len(ordinary[0][0]) + 2 + len(ordinary[-1][1]) <= 78:
            ordinary[-1] = (ordinary[0][0], ordinary[-1][1], ordinary[-1][2])            # duplicate name
        lf = gen_long_field(rng)
        for pos in range(k + 1):                                                           # first, every middle position, last
            fs = ordinary[:pos] + [lf] + ordinary[pos:]
            mode = rng.choice(['crlf', 'crlf', 'lf', 'mixed'])
            H, blank = render(fs, rng, mode)
            cases.append((fs, pos, H, blank, gen_body(rng), mode))
    judge_long(ctx, cases, 'long-line')


def judge_long(ctx, cases, kind, light=False):
    """cases: (fields, index of the long field, header block, blank, body, eol mode[, generator description]).
    Recursion-prone inputs (recursion_prone): only what the statement promises for over-long lines is judged - parse /
    flatten (from a shallow and from a deep stack) / copy / pickle never raise, body unchanged.  Other inputs: the path
    (first attempt raised or not) is OBSERVED for the very flatten() call that is judged."""
    cases = [c if len(c) == 7 else c + (None,) for c in cases]
    datas = [H + blank + body for (fs, pos, H, blank, body, mode, gen) in cases]
    prone = [recursion_prone(H) for (fs, pos, H, blank, body, mode, gen) in cases]
    folds = [[[]] * len(fs) if pr else email_folds(H + blank) for (fs, pos, H, blank, body, mode, gen), pr in zip(cases, prone)]
    outs = ctx.model.batch('c20_parse_flatten_x', [[d, f] for d, f in zip(datas, folds)])
    for (fs, pos, H, blank, body, mode, gen), data, fl, o, pr in zip(cases, datas, folds, outs, prone):
        raw = [split for split in split_fields(hnorm_py(fs))]
        where = 'first' if pos == 0 else ('last' if pos == len(fs) - 1 else 'middle')
        case = dict(kind='long-line', stream=kind, data=data, header_block=H, blank=blank, body=body, long_field_index=pos)
        if gen is not None:       # keep replays small: big inputs are regenerated from their description
            case = dict(kind='long-line', stream=kind, long_field_index=pos, body=body, gen=gen)
        ctx.evaluated(('x', data), nontrivial=True)
        mo = (B(o[1]), B(o[2])) if o[0] == 0 else ('model-tag', o[0])
        r = check_no_raise(ctx, data, kind, case=case, light=light, deep=(pr or kind == 'nesting'))
        if r is None:
            # the model (fallback taken for ANY exception of the first attempt) produced output, the implementation raised
            ctx.count('%s:implementation-raised:%s' % (kind, where))
            ctx.mismatch('parse-flatten-long-line', case, 'raises', (mo[0][-200:], mo[1][:200]) if len(mo) == 2 and mo[0] != 'model-tag' else mo)
            continue
        e, flat = r
        observed = LAST['first_attempt_raised']
        if flat[1] != body:
            ctx.fail('c20:body-changed', case, 'flatten() body %r, expected %r' % (flat[1][:300], body[:300]))
        if pr:
            # which attempt wrote the headers is not a function of the input here: headers are not judged, not compared
            ctx.count('%s:recursion-prone(headers not judged):first-attempt-%s:%s' % (
                kind, {True: 'raised', False: 'succeeded', None: 'unobserved'}[observed], where))
            if len(mo) == 2 and mo[0] != 'model-tag' and flat[1] != mo[1]:
                ctx.mismatch('parse-flatten-long-line', case, flat[1][:200], mo[1][:200])
            continue
        fold_path = 'fallback' if any(not x for x in fl) else ('refolded' if [x[0] for x in fl] != raw else 'as-received')
        if observed is None:
            path = fold_path                      # generator not observable: email's per-header answers decide
        else:
            path = 'fallback' if observed else fold_path
            if observed != (fold_path == 'fallback'):
                ctx.mismatch('first-attempt-outcome', case, 'first attempt raised' if observed else 'first attempt succeeded',
                             'email folds every header' if fold_path != 'fallback' else 'email cannot fold header(s) %r' % [i for i, x in enumerate(fl) if not x])
        case['path'] = path
        ctx.count('%s:%s:%s' % (kind, path, where))
        if path == 'fallback':
            ctx.sample(dict(kind=kind, data=data[:300], long_field_index=pos, path=path), cap=5)
        if flat != mo or len(fl) != len(fs):
            ctx.mismatch('parse-flatten-long-line', case, flat, mo)
        # ---- implementation-only oracle: same header field list (names and values, in order, same multiplicity)
        problems = []
        if flat[0][-2:] != CRLF:
            problems.append('header data does not end with the blank line')
        got = split_fields(flat[0][:-2])
        want = split_fields(hnorm_py(fs))
        if path == 'fallback':
            # written as received: the whole field list, names and values, in order, each exactly once
            if len(got) != len(want):
                problems.append('%d header fields written, the message has %d' % (len(got), len(want)))
            for i, (g, w) in enumerate(zip(got, want)):
                if g != w:
                    problems.append('field %d is %r, expected %r' % (i, g, w))
        else:
            # email re-folded the long field itself (what it writes for it is email's business, it can even break the line
            # without leading white space); the ordinary fields in front of and behind it must be there once, unchanged
            after = len(want) - pos - 1
            if got[:pos] != want[:pos]:
                problems.append('fields in front of the long one are %r, expected %r' % (got[:pos], want[:pos]))
            if (got[len(got) - after:] if after else []) != want[pos + 1:]:
                problems.append('fields behind the long one are %r, expected %r' % (got[len(got) - after:], want[pos + 1:]))
            mid = b''.join(got[pos:len(got) - after])
            if not mid.startswith(want[pos].split(b':')[0] + b':'):
                problems.append('the long field was written as %r' % (mid,))
            if len(got) != len(want):
                ctx.count('long-line:email-refold-breaks-line-without-leading-blank')
                ctx.note('email re-folds some over-long malformed lines with a line break that is not followed by white space '
                         '(stdlib behaviour on the refold path, not the fallback path; counted, not judged)')
        if problems:
            ctx.fail('c20:header-block-changed', case, '; '.join(problems[:4]) + '; flatten() header data = %r' % (flat[0],))
            continue
        if path == 'fallback':
            # re-parse fixed point, judged only if that second flatten() call is observed to take the fallback path as well
            try:
                e2 = Envelope()
                e2.parse(flat[0] + flat[1])
                flat2, observed2 = observed_flatten(e2)
            except Exception as ex:
                flat2, observed2 = ('raises', exc_name(ex)), True
            if observed2 is False:
                ctx.count('%s:re-parse-took-the-refold-path(not judged)' % kind)
            elif flat2 != flat:
                ctx.fail('c20:not-a-fixed-point', case, 're-parsing flatten() output gives %r, first %r' % (flat2, flat))


# ------------------------------------------------------------------ deep nesting in structured headers (never raises; fallback for ANY exception)
NEST_NAMES = [b'From', b'To', b'Cc', b'Reply-To', b'Message-ID', b'References']
NEST_UNITS = [b'(', b'<', b'"', b'[']
NEST_DEPTHS = [50, 400, 1000, 3000, 12000]
NEST_ORDINARY = [(b'Received', b'from a.example by b.example', [b'\twith ESMTP; Mon, 1 Jan 2024 00:00:00 +0000']),
                 (b'Subject', 'gr\u00fc\u00dfe'.encode(), []), (b'X-Dup', b'1', []), (b'X-Dup', b'2', [])]


def make_nest(gen):
    """gen: name, unit, depth, after (ordinary fields in front or not), eol -> (fields, pos, H, blank)"""
    name, unit, depth = gen['name'], gen['unit'], gen['depth']
    if isinstance(name, str):
        name, unit = name.encode('latin1'), unit.encode('latin1')
    field = (name, unit * depth + b' x@y.z', [])
    fs = (list(NEST_ORDINARY) if gen['after'] else []) + [field]
    eol = CRLF if gen['eol'] == 'crlf' else b'\n'
    H = b''.join(n + b': ' + v + eol + b''.join(c + eol for c in cs) for n, v, cs in fs)
    return fs, len(fs) - 1, H, eol


def nest_heavy(name, unit, depth):
    """combinations on which email's own parsers take > 0.1 s per fold"""
    addr = name not in (b'Message-ID', b'References')
    return addr and ((unit == b'(' and depth == 400) or (unit == b'"' and depth >= 3000) or depth >= 12000 and unit in (b'<', b'"'))


def run_nesting(ctx):
    cases = []
    for name in NEST_NAMES:
        for unit in NEST_UNITS:
            for depth in NEST_DEPTHS:
                for after in (False, True):
                    if ctx.quick:          # quick tier: the slow combinations once, the "alone" variant for two names
                        if nest_heavy(name, unit, depth) and not (name == b'To' and after and (unit, depth) == (b'(', 400)):
                            continue
                        if not after and name not in (b'To', b'Message-ID'):
                            continue
                    gen = dict(name=name.decode(), unit=unit.decode(), depth=depth, after=after, eol='crlf' if (depth + after) % 2 else 'lf')
                    fs, pos, H, blank = make_nest(gen)
                    cases.append((fs, pos, H, blank, b'body\r\n.\r\n', gen['eol'], dict(nest=gen)))
    judge_long(ctx, cases, 'nesting', light=True)
    return len(cases)


# ------------------------------------------------------------------ SIZE of the header block (the quantifier bounds the line length, not the block)
def big_fields(n):
    """n well-formed fields: three-line ~78-byte Received fields, duplicate names, 8-bit Subjects"""
    fs = []
    for i in range(n):
        if i % 50 == 7 or n == 1:
            fs.append((b'Subject', ('gr\u00f6\u00dfe \u65e5\u672c %d' % i).encode(), []))
        elif i % 10 == 3:
            fs.append((b'X-Dup', b'value %d' % i, [b' folded %d' % i]))
        else:
            fs.append((b'Received', (b'from host%05d.example.org (host%05d.example.org [192.0.2.%d])' % (i, i, i % 250)).ljust(68, b'x'),
                       [(b'\tby mx.example.net (slimta 5.0.5) with ESMTP id %012d' % i).ljust(78, b'y'),
                        b'\tfor <rcpt%05d@example.com>; Mon, 01 Jan 2024 00:00:%02d +0000' % (i, i % 60)]))
    return fs


def make_big(gen):
    """gen: nfields or size (exact byte size of header block + blank line), eol -> (fields, H, blank)"""
    e = CRLF if gen['eol'] == 'crlf' else b'\n'

    def rend(fs):
        return b''.join(n + b': ' + v + e + b''.join(c + e for c in cs) for n, v, cs in fs)
    if gen.get('size') is None:
        fs = big_fields(gen['nfields'])
        return fs, rend(fs), e
    size = gen['size']
    fs = []
    for f in big_fields(10000):
        if len(rend(fs + [f])) + len(e) + 400 > size:
            break
        fs.append(f)
    r = size - len(rend(fs)) - len(e)                 # bytes still to fill with X-Pad lines of 8+len(e) .. 77+len(e) bytes
    lo, hi = 8 + len(e), 77 + len(e)
    while r > 0:
        L = min(r, hi)
        if 0 < r - L < lo:
            L = r - lo
        fs.append((b'X-Pad', b'p' * (L - 7 - len(e)), []))
        r -= L
    H = rend(fs)
    assert len(H) + len(e) == size, (len(H), size)
    return fs, H, e


SIZE_BODIES = [b'\n\nleading blank lines\nbare LF\n', b'\r\n\r\n.\r\n..dot lines\r\n', b'lone\rCR and \x00 NUL\r\n', b'\n', b'plain text\r\n',
               b'\r\nX: looks like a header\n\n\xff\xfe 8-bit\r']


def run_sizes(ctx):
    gens = []
    k = 0
    for n in (1, 20, 150, 400, 450, 900):
        for eol in ('crlf', 'lf'):
            if ctx.quick and n == 900 and eol == 'crlf':
                continue
            for _ in range(1 if ctx.quick else 6):
                gens.append((dict(nfields=n, eol=eol, size=None), SIZE_BODIES[k % len(SIZE_BODIES)])); k += 1
    for T in (16384, 32768, 65536):
        for d in (-80, -1, 0, 1, 2, 80):
            for eol in ('crlf', 'lf'):
                for _ in range(1 if ctx.quick else 3):
                    gens.append((dict(nfields=None, eol=eol, size=T + d), SIZE_BODIES[k % len(SIZE_BODIES)])); k += 1
    built = [make_big(g) for g, _ in gens]
    datas = [H + e + body for (fs, H, e), (g, body) in zip(built, gens)]
    m_pf = ctx.model.batch('c20_parse_flatten', datas)
    m_fix = ctx.model.batch('c20_refix', datas) if not ctx.quick else [None] * len(datas)
    for (fs, H, e), (g, body), data, opf, ofix in zip(built, gens, datas, m_pf, m_fix):
        case = dict(kind='size', gen=g, body=body, header_fields=len(fs), header_bytes=len(H) + len(e))
        ctx.count('size:%s' % ('<=16K' if len(H) <= 16384 else '<=32K' if len(H) + len(e) <= 32768 else '<=64K' if len(H) + len(e) <= 65536 else '>64K'))
        ctx.evaluated(('size', repr(g), body), nontrivial=True)
        want = (hnorm_py(fs) + CRLF, body)
        mo = (B(opf[1]), B(opf[2])) if opf[0] == 0 else ('out-of-class',)
        if mo != want:
            ctx.mismatch('model-vs-reference-rendering', case, 'reference', 'differs' if len(mo) == 2 else mo)
        r = check_no_raise(ctx, data, 'size', case=case, light=True)
        if r is None:
            continue
        env, flat = r
        if flat != mo:
            ctx.mismatch('parse-flatten', case, (flat[0][-120:], flat[1][:120]), (mo[0][-120:], mo[1][:120]) if len(mo) == 2 else mo)
        if flat[1] != body:
            ctx.fail('c20:body-changed', case, 'flatten() body = %r, expected %r (header block of %d fields, %d bytes)' % (flat[1][:200], body, len(fs), len(H) + len(e)))
        elif flat[0] != want[0]:
            ctx.fail('c20:headers-changed', case, 'flatten() header data differs from the %d fields of the message (CRLF): %d bytes, expected %d' % (len(fs), len(flat[0]), len(want[0])))
        try:
            e2 = Envelope()
            e2.parse(flat[0] + flat[1])
            flat2 = e2.flatten()
        except Exception as ex:
            flat2 = ('raises', exc_name(ex))
        if ofix is not None:
            mo2 = (B(ofix[1]), B(ofix[2])) if ofix[0] == 0 else ('out-of-class',)
            if flat2 != mo2:
                ctx.mismatch('refix', case, 'implementation', 'differs from the model')
        if flat2 != flat:
            ctx.fail('c20:not-a-fixed-point', case, 're-parsing flatten() output gives another body / header block: body %r, first %r' % (flat2[1][:200], flat[1][:200]))
        if len(fs) <= 150:
            probs = mutation_probe(env, flat)
            if probs:
                ctx.fail('c20:copy-shares-state', case, '; '.join(probs))
    return len(gens)


def encoded_body(body, which):
    """stdlib encoder output for the body as the generator writes it (the oracle input of the model)"""
    text = body.replace(b'\r\n', b'\n').replace(b'\r', b'\n')        # BytesParser reads through a universal-newlines TextIOWrapper
    if which == 'base64':
        enc = base64.encodebytes(text)
    else:
        enc = quopri.encodestring(text, quotetabs=True).replace(b' ', b'=20')
    return re.sub(br'\r\n|\r|\n', b'\r\n', enc)


TEXT_LINES = ['héllo wörld', 'plain ascii line', '', '.', '..dots', 'tab\there ', ' leading space', 'trailing space ', '日本語のテキスト',
              'x' * 80, 'é' * 50, 'a=b', '=3D', 'From me', '--', 'Ünïcödé ' * 8, '\u20ac 100', 'soft\u00adhyphen', 'emoji \U0001F600', 'ab\x00cd',
              'Subject: not a header']
CT_FIELDS = [None, None, b'text/plain; charset=utf-8', b'text/plain; charset="UTF-8"', b'text/html; charset=utf-8', b'text/plain']
CTE_OLD = [None, None, None, b'8bit', b'binary', b'7bit']


def run_7bit(ctx, n):
    rng = ctx.rng
    cases = []
    for _ in range(n):
        fs = [f for f in gen_fields(rng) if f[0].lower() not in (b'content-type', b'content-transfer-encoding', b'content-disposition', b'mime-version')]
        ct = rng.choice(CT_FIELDS)
        if ct:
            fs.insert(rng.randrange(len(fs) + 1), (rng.choice([b'Content-Type', b'content-type']), ct, []))
        for _ in range(rng.choice([0, 0, 1, 1, 2])):
            old = rng.choice(CTE_OLD)
            if old:
                fs.insert(rng.randrange(len(fs) + 1), (rng.choice([b'Content-Transfer-Encoding', b'content-transfer-encoding', b'CONTENT-TRANSFER-ENCODING']), old, []))
        if not fs:
            fs = [(b'Subject', b'x', [])]
        lines = [rng.choice(TEXT_LINES) for _ in range(rng.choice([0, 1, 2, 3, 6, 12]))]
        if rng.random() < 0.25:
            lines = [l for l in lines if all(ord(ch) < 128 for ch in l)]       # ASCII body: must be left alone
        body = ''.join(l + '\r\n' for l in lines).encode('utf-8')
        if lines and rng.random() < 0.2:
            body = body[:-2]                                                   # last line without line end
        mode = rng.choice(['crlf', 'crlf', 'lf', 'mixed'])
        H, blank = render(fs, rng, mode)
        which = rng.choice([None, 'base64', 'quoted-printable'])
        cases.append((fs, H + blank + body, body, which))
    jobs = [[data, 1 if which else 0, (which or '').encode(), encoded_body(body, which) if which else b''] for fs, data, body, which in cases]
    outs = ctx.model.batch('c20_encode7', jobs)
    for (fs, data, body, which), o in zip(cases, outs):
        eight = any(x > 127 for x in body)
        strict = strict_class(fs)
        case = dict(kind='7bit', data=data, encoder=which, strict_class=strict)
        ctx.count('7bit:%s:%s' % (which or 'none', '8bit-body' if eight else 'ascii-body'))
        ctx.evaluated(('7', data, which), nontrivial=eight)
        e = Envelope('sender@example.com', ['r1@example.com'])
        before = None                      # stays None when parse()/flatten() itself raises
        try:
            e.parse(data)
            before = e.flatten()
            e.encode_7bit({None: None, 'base64': encode_base64, 'quoted-printable': encode_quopri}[which])
            io = (0,) + e.flatten()
        except UnicodeError:
            io = (1,)
        except Exception as ex:
            io = ('raises', exc_name(ex), str(ex))
        mo = (0, B(o[1]), B(o[2])) if o[0] == 0 else (o[0],)
        if io != mo:
            ctx.mismatch('encode_7bit', case, io, mo)
        if eight and which:
            ctx.sample(dict(kind='7bit', data=data, encoder=which, result=io), cap=5)
        if not strict:
            continue
        # property oracle
        if not eight:
            if before is None or io != (0,) + before:
                ctx.fail('c20:7bit-ascii-body-changed', case, 'ASCII body: encode_7bit gave %r, before %r' % (io, before))
            continue
        if which is None:
            if io != (1,):
                ctx.fail('c20:7bit-8bit-passed-without-encoder', case, '8-bit body and no encoder: expected UnicodeError, got %r' % (io,))
            continue
        if io[0] != 0:
            ctx.fail('c20:7bit-encoder-failed', case, 'encode_7bit(%s) -> %r' % (which, io))
            continue
        hdr, enc = io[1], io[2]
        problems = []
        if any(x > 127 for x in enc):
            problems.append('body not ASCII')
        try:
            dec = base64.b64decode(enc) if which == 'base64' else quopri.decodestring(enc)
            if dec.replace(b'\r\n', b'\n') != body.replace(b'\r\n', b'\n'):
                problems.append('decoded text %r differs from %r' % (dec, body))
            dec.decode('utf-8')
        except Exception as ex:
            problems.append('does not decode: %s' % ex)
        # header fields: the original ones without Content-Transfer-Encoding, then the new one
        want_h = hnorm_py([f for f in fs if f[0].lower() != b'content-transfer-encoding'] +
                          [(b'Content-Transfer-Encoding', which.encode(), [])]) + CRLF
        if hdr != want_h:
            problems.append('headers %r, expected %r' % (hdr, want_h))
        if e.sender != 'sender@example.com' or e.recipients != ['r1@example.com']:
            problems.append('sender/recipients changed')
        if problems:
            ctx.fail('c20:7bit-conversion', case, '; '.join(problems))
# ------------------------------------------------------------------ structured Content-Type x stray non-header lines inside the block (never raises)
MIME_CTS = [None, b'text/plain; charset=utf-8', b'multipart/mixed; boundary="b1"', b'multipart/mixed', b'multipart/alternative; boundary=alt',
            b'message/rfc822', b'message/delivery-status', b'message/global', b'application/octet-stream',
            b'multipart/mixed; boundary="b1; charset', b'text/plain; charset=; =x; ;;', b'multipart/signed; protocol="p"; micalg=sha1; boundary=sig',
            b'message/external-body; access-type=url', b'multipart/report; report-type=delivery-status; boundary=rep']
MIME_CTES = [None, b'7bit', b'8bit', b'base64', b'quoted-printable', b'binary', b'x-unknown']
MIME_STRAYS = [b'this line is not a header', 'kein Kopf: \u00e9\u00fc 8-bit'.encode()[:0] + 'stray \u00e9\u00fc 8-bit line'.encode(), b'--b1', b': x', b'   ',
               b'--b1--', b'\xff\xfe raw', b'From no colon here']
MIME_BODIES = [b'', b'plain body\r\n', b'--b1\r\nContent-Type: text/plain\r\n\r\npart one\r\n--b1--\r\n',
               'Reporting-MTA: dns; a.example\r\n\r\nFinal-Recipient: rfc822; x@y.z\r\nAction: failed\r\n'.encode(),
               'Subject: inner \u00e9\r\n\r\ninner body \u00e9\r\n'.encode(), b'\n\n--alt\n\nbare LF part\n--alt--\n']


def mime_stray_case(ct, cte, mv, stray, pos, body, eol):
    fields = [b'Subject: report']
    if mv:
        fields.insert(0, b'MIME-Version: 1.0')
    if ct is not None:
        fields.append(b'Content-Type: ' + ct)
    if cte is not None:
        fields.append(b'Content-Transfer-Encoding: ' + cte)
    fields.append(b'X-Last: 1')
    lines = list(fields)
    if stray is not None:
        at = {'before': 0, 'between': len(lines) - 1, 'after': len(lines)}[pos]
        lines.insert(at, stray)
    return b''.join(l + eol for l in lines) + eol + body


def run_mime_stray(ctx):
    rng = ctx.rng
    datas = []
    k = 0
    for ct in MIME_CTS:
        for stray in [None] + MIME_STRAYS:
            for pos in ('before', 'between', 'after'):
                if stray is None and pos != 'after':
                    continue
                for bi, body in enumerate(MIME_BODIES):
                    if ctx.quick and (bi + k) % 3 == 2:
                        k += 1
                        continue
                    combos = [(MIME_CTES[k % len(MIME_CTES)], bool(k % 2), CRLF if k % 3 else b'\n')] if ctx.quick else \
                             [(cte, mv, eol) for cte in MIME_CTES for mv in (False, True) for eol in (CRLF, b'\n')]
                    k += 1
                    for cte, mv, eol in combos:
                        datas.append(mime_stray_case(ct, cte, mv, stray, pos, body, eol))
    run_arbitrary(ctx, datas, 'mime-stray')
    return len(datas)


# ------------------------------------------------------------------ sequences of operations on ONE envelope object
OPS_BASES = [
    ([(b'Subject', 'gr\u00fc\u00dfe'.encode(), []), (b'X-Dup', b'1', []), (b'Content-Type', b'text/plain; charset=utf-8', []),
      (b'X-Dup', b'2', []), (b'content-transfer-encoding', b'8bit', [])], 'crlf', 'h\u00e9llo w\u00f6rld\r\nsecond line\r\n'.encode()),
    ([(b'From', b'a@example.com', []), (b'Received', b'from a.example by b.example', [b'\twith ESMTP; Mon, 1 Jan 2024 00:00:00 +0000']),
      (b'x-dup', b'only', [])], 'lf', '\u65e5\u672c\u8a9e\r\n.\r\nlast line without line end \u00e9'.encode()),
    ([(b'Subject', b'plain', []), (b'X-Dup', b'1', [])], 'crlf', b'ascii only\r\n'),
]
OPS_CORE = 'FRCKYPA'
OPS_EDIT = 'SDHN'


class FlakyEncoderError(Exception):
    pass


def ops_data(base):
    fs, mode, body = OPS_BASES[base]
    e = CRLF if mode == 'crlf' else b'\n'
    return b''.join(n + b': ' + v + e + b''.join(c + e for c in cs) for n, v, cs in fs) + e + body


def ops_reference(base, which, ops):
    """independent statement of what each operation must show: list of expected observations, and for every encode
    call with the flaky encoder whether that invocation raises"""
    fs0, mode, body0 = OPS_BASES[base]
    fs, body, flaky_used = list(fs0), body0, False
    exp, model_ops = [], []
    for i, o in enumerate(ops):
        eight = any(x > 127 for x in body)
        if o == 'F':
            exp.append(('flat', hnorm_py(fs) + CRLF, body)); model_ops.append([0])
        elif o == 'R':
            exp.append(('refused',) if eight else ('done',)); model_ops.append([1])
        elif o in 'CK':
            fails = (o == 'K' and eight and not flaky_used)
            if fails:
                flaky_used = True
                exp.append(('encoder-raised',)); model_ops.append([3])
            else:
                if eight:
                    fs = [f for f in fs if f[0].lower() != b'content-transfer-encoding'] + [(b'Content-Transfer-Encoding', which.encode(), [])]
                    body = encoded_body(body, which)
                exp.append(('done',)); model_ops.append([2])
        elif o == 'Y':
            exp.append(('done',)); model_ops.append([4, []])
        elif o == 'P':
            exp.append(('done',)); model_ops.append([5])
        elif o == 'A':
            fs, body = list(fs0), body0
            exp.append(('done',)); model_ops.append([6, ops_data(base)])
        elif o == 'S':
            fs = fs + [(b'X-Edit', b'v%d' % i, [])]
            exp.append(('done',)); model_ops.append([7, b'X-Edit', b'v%d' % i])
        elif o == 'D':
            fs = [f for f in fs if f[0].lower() != b'x-dup']
            exp.append(('done',)); model_ops.append([8, b'x-dup'])
        elif o == 'H':
            idx = [j for j, f in enumerate(fs) if f[0].lower() == b'subject']
            if idx:
                fs = fs[:idx[0]] + [(fs[idx[0]][0], b'replaced%d' % i, [])] + fs[idx[0] + 1:]
                exp.append(('done',))
            else:
                exp.append(('edit-raised',))
            model_ops.append([9, b'subject', b'replaced%d' % i])
        elif o == 'N':
            fs = [(b'Received', b'from edit%d' % i, [])] + fs
            exp.append(('done',)); model_ops.append([10, b'Received', b'from edit%d' % i])
    return exp, model_ops, (fs, body)


def ops_model_obs(o):
    out = []
    for x in o:
        out.append({0: lambda: ('flat', B(x[1]), B(x[2])), 1: lambda: ('done',), 2: lambda: ('refused',),
                    3: lambda: ('encoder-raised',), 4: lambda: ('edit-raised',)}[x[0]]())
    return out


def ops_run_impl(base, which, ops):
    """the real Envelope through the operations; observations in the shape of the reference; an unexpected exception
    becomes an observation ('raised', step, type)"""
    state = {'flaky_used': False}
    real = {'base64': encode_base64, 'quoted-printable': encode_quopri}[which]

    def flaky(part):
        if not state['flaky_used']:
            state['flaky_used'] = True
            raise FlakyEncoderError('encoder failed once')
        return real(part)
    e = Envelope('sender@example.com', ['r1@example.com'])
    e.parse(ops_data(base))
    obs = []
    for i, o in enumerate(ops):
        try:
            if o == 'F':
                h, b = e.flatten()
                obs.append(('flat', h, b))
            elif o in 'RCK':
                try:
                    e.encode_7bit({'R': None, 'C': real, 'K': flaky}[o])
                    obs.append(('done',))
                except UnicodeError:
                    obs.append(('refused',))
                except FlakyEncoderError:
                    obs.append(('encoder-raised',))
            elif o == 'Y':
                e = e.copy(); obs.append(('done',))
            elif o == 'P':
                e = pickle.loads(pickle.dumps(e, pickle.HIGHEST_PROTOCOL)); obs.append(('done',))
            elif o == 'A':
                e.parse(ops_data(base)); obs.append(('done',))
            elif o == 'S':
                e.headers['X-Edit'] = 'v%d' % i; obs.append(('done',))
            elif o == 'D':
                del e.headers['x-dup']; obs.append(('done',))
            elif o == 'H':
                try:
                    e.headers.replace_header('subject', 'replaced%d' % i); obs.append(('done',))
                except KeyError:
                    obs.append(('edit-raised',))
            elif o == 'N':
                e.prepend_header('Received', 'from edit%d' % i); obs.append(('done',))
        except Exception as ex:
            obs.append(('raised', exc_name(ex), str(ex)[:200]))
            break
    return obs, e


def ops_judge(ctx, base, which, ops, exp, obs, final):
    """the property oracle over one sequence: first step whose stated post-condition does not hold"""
    case = dict(kind='ops', base=base, encoder=which, ops=ops)
    last_flat_hdr, edited = None, False
    for i, (o, want) in enumerate(zip(ops, exp)):
        got = obs[i] if i < len(obs) else ('missing',)
        earlier_encode = any(x in 'RCK' for x in ops[:i])
        if got == want:
            if o == 'F':
                last_flat_hdr, edited = got[1], False
            if o in 'SDHN' and want == ('done',):
                edited = True
            if o == 'A' or (o in 'CK' and want == ('done',)):
                edited = True      # headers legitimately change
            continue
        what = 'step %d (%s) of %r: observed %r, stated %r' % (i, o, ops, got, want)
        if got[0] == 'raised':
            ctx.fail('c20:operation-raised', case, what)
        elif o == 'R':
            ctx.fail('c20:7bit-state-after-refusal' if earlier_encode else 'c20:7bit-8bit-passed-without-encoder', case,
                     '8-bit body and no encoder must be refused at every call; ' + what)
        elif o in 'CK':
            ctx.fail('c20:7bit-state-after-refusal' if earlier_encode else 'c20:7bit-conversion', case, what)
        elif o == 'F' and got[0] == 'flat':
            if got[2] != want[2] and any(x > 127 for x in got[2]) and not any(x > 127 for x in want[2]):
                ctx.fail('c20:7bit-state-after-refusal' if earlier_encode else 'c20:7bit-conversion', case,
                         'encode_7bit(encoder) returned normally but the body is still 8-bit; ' + what)
            elif got[2] != want[2]:
                ctx.fail('c20:body-changed', case, what)
            elif edited and got[1] == last_flat_hdr:
                ctx.fail('c20:flatten-ignores-header-edit', case, 'flatten() after an in-place header edit returns the header block of the '
                         'flatten() before the edit; ' + what)
            else:
                ctx.fail('c20:headers-changed', case, what)
        else:
            ctx.fail('c20:operation-sequence', case, what)
        return False
    return True


def ops_sequences(ctx):
    seqs = ['']
    alpha = OPS_CORE + OPS_EDIT
    for L in (1, 2, 3) if ctx.quick else (1, 2, 3, 4):
        seqs += [''.join(t) for t in itertools.product(alpha, repeat=L)]
    if ctx.quick:
        seqs += [''.join(t) for t in itertools.product(OPS_CORE, repeat=4)]
    for _ in range(600 if ctx.quick else 6000):
        seqs.append(''.join(ctx.rng.choice(alpha) for _ in range(ctx.rng.randrange(4, 8))))
    return seqs


def run_ops(ctx):
    seqs = ops_sequences(ctx)
    jobs, metas = [], []
    for k, ops in enumerate(seqs):
        for base in ([k % 3] if (ctx.quick or len(ops) == 4) else [k % 3, (k + 1) % 3]):
            which = ('base64', 'quoted-printable')[(k // 3) % 2]
            ops_f = ops + 'FR'            # final state check: what flatten shows, and the refusal if the body is still 8-bit
            exp, model_ops, final = ops_reference(base, which, ops_f)
            metas.append((base, which, ops_f, exp, final))
            jobs.append([ops_data(base), which.encode(), encoded_body(OPS_BASES[base][2], which), model_ops])
    outs = ctx.model.batch('c20_ops', jobs)
    for (base, which, ops, exp, final), o in zip(metas, outs):
        obs, env = ops_run_impl(base, which, ops)
        ctx.evaluated(('ops', base, which, ops), nontrivial=len(ops) > 3)
        ctx.count('ops:length-%d' % (len(ops) - 2))
        mobs = ops_model_obs(o) if o != (9,) else [('out-of-class',)]
        if mobs != exp:
            ctx.mismatch('ops-model-vs-reference', dict(kind='ops', base=base, encoder=which, ops=ops), exp, mobs)
        if obs != mobs:
            ctx.mismatch('ops', dict(kind='ops', base=base, encoder=which, ops=ops), obs, mobs)
        ok = ops_judge(ctx, base, which, ops, exp, obs, final)
        if ok and any(x in 'CK' for x in ops) and not any(x > 127 for x in final[1]) and any(x > 127 for x in OPS_BASES[base][2]) and 'A' not in ops[ops.rfind('C'):]:
            # after a successful conversion: pure ASCII that decodes to the same text
            try:
                dec = base64.b64decode(final[1]) if which == 'base64' else quopri.decodestring(final[1])
                if dec.replace(b'\r\n', b'\n') != OPS_BASES[base][2].replace(b'\r\n', b'\n'):
                    ctx.fail('c20:7bit-conversion', dict(kind='ops', base=base, encoder=which, ops=ops), 'converted body decodes to %r' % (dec,))
            except Exception:
                pass
    return len(jobs)


def run(ctx):
    ctx.extra['rule'] = (
        'boundary: every byte string over {CR,LF,SP,a,TAB} to the stated length, model search vs re.search(_HEADER_BOUNDARY); '
        'structured: 1-10 generated well-formed fields (folded lines, 8-bit / invalid-UTF-8 values, duplicate and odd names, structured '
        'Content-Type values, <=78 bytes per line, CRLF / LF / mixed line ends) x bodies out of NUL, lone CR, leading blank lines, dot lines, '
        '8-bit, header-looking and white-space-only lines: flatten(), re-parse, copy, deep copy mutation probe, pickle (2 protocols) compared '
        'with the model (class codec) and with an independent rendering; the same inputs and arbitrary / mutated / small-alphabet-exhaustive byte '
        'strings through parse/flatten/copy/pickle for the never-raises claim and through the model with email\'s answers as codec oracle; '
        'ops: every sequence of up to 3 (quick) / 4 (thorough) operations on ONE envelope out of flatten, encode_7bit() [refusal], encode_7bit(encoder), '
        'encode_7bit(encoder that fails once), copy, pickle round trip, parse again, headers[..]=.., del headers[..], replace_header, prepend_header '
        '(quick: also all length-4 sequences of the first seven), plus random longer ones, each followed by flatten + encode_7bit(): after every step the stated '
        'post-condition (refusal whenever the body is 8-bit and no encoder; conversion gives ASCII decoding to the text; flatten shows the CURRENT headers and body) '
        'and the model trace; size: well-formed blocks of 1 / 20 / 150 / 400 / 450 / 900 fields (78-byte folded Received lines, duplicate names, 8-bit Subjects) and blocks of exactly '
        'T-80, T-1, T, T+1, T+2, T+80 bytes for T = 16384, 32768, 65536, CRLF and LF, x bodies with leading blank lines / bare LF / lone CR / NUL / dot lines '
        '(parse, flatten, copy, pickle, re-parse; model run on the same bytes); nesting: From/To/Cc/Reply-To/Message-ID/References lines of 50..12000 nested '
        '( < " [ alone and behind ordinary fields (email raises RecursionError / IndexError for some: fallback for ANY exception of the first attempt); '
        'long-line: one field with a line > 78 bytes (address / msg-id / comment garbage that email cannot re-fold, and long foldable text) placed at every '
        'position among 1-4 ordinary fields (folded, 8-bit, duplicate names): flatten() must write every field exactly once in order - the ordinary ones '
        'byte-identical (CRLF), the long one as received when email raises (no-refold fallback), same body - plus copy, pickle, re-parse fixed point; '
        'compared with the model of _msg_generator (two attempts, fresh buffers) given email\'s per-header fold_binary answers; '
        '7bit: single-part UTF-8 CRLF text bodies x {no encoder, base64, quoted-printable} x existing Content-Type / Content-Transfer-Encoding fields. '
        'non-trivial = anything beyond a pure-CRLF unfolded ASCII message / an input containing a line break / an 8-bit body for 7bit')
    q = ctx.quick
    nb = run_boundary(ctx, 7 if q else 9)
    good = run_structured(ctx, 1200 if q else 15000)
    ne = run_exhaustive_small(ctx, 5 if q else 7)
    run_arbitrary(ctx, [gen_arbitrary(ctx.rng, good) for _ in range(1500 if q else 20000)], 'random')
    run_arbitrary(ctx, [gen_overlong(ctx.rng) for _ in range(400 if q else 8000)], 'overlong')
    run_fallback(ctx, 700 if q else 12000)
    run_nesting(ctx)
    run_sizes(ctx)
    run_ops(ctx)
    run_mime_stray(ctx)
    run_7bit(ctx, 500 if q else 6000)
    ctx.extra['exhaustive'] = True
    ctx.extra['exhaustive_bound'] = ('boundary search: all %d byte strings over {CR,LF,SP,a,TAB} up to length %d; parse/flatten/copy/pickle never-raise '
                                     'and parse-with-email-as-codec: all %d byte strings over {a,:,SP,CR,LF} up to length %d'
                                     % (nb, 7 if q else 9, ne, 5 if q else 7))
    ctx.extra['trusted_base'] = ['Python email package (BytesParser/BytesGenerator, policy SMTP; email.encoders, base64, quopri): Section variables '
                                 'hparse/hgen/recode/encb with hypotheses codec_ok / encoder contract; tested by this run, not proved',
                                 'pickle modelled as identity']
    ctx.note('header values with VT, FF, FS, GS, RS or a lone CR are outside the class: email.policy splits the stored value with str.splitlines, '
             'e.g. b"Subject: a\\x0cb" is flattened as b"Subject: a\\r\\nb" (not judged)')
    ctx.note('encode_7bit with base64 carries LF line ends (email reads the body through a universal-newlines text wrapper); judged as the same text')


def replay(ctx, case):
    c = case.get('case', case)

    def unhex(x):
        return bytes.fromhex(x['hex']) if isinstance(x, dict) else x
    if c.get('kind') == 'ops':
        exp, model_ops, final = ops_reference(c['base'], c['encoder'], c['ops'])
        obs, env = ops_run_impl(c['base'], c['encoder'], c['ops'])
        print('message       :', ops_data(c['base']))
        print('operations    : %s  (F flatten, R encode_7bit(), C encode_7bit(%s), K encode_7bit(encoder failing once), Y copy, P pickle, '
              'A parse again, S headers[X-Edit]=.., D del headers[x-dup], H replace_header(subject), N prepend_header(Received))' % (c['ops'], c['encoder']))
        for i, o in enumerate(c['ops']):
            got = obs[i] if i < len(obs) else ('not reached',)
            print('  step %d %s: observed %r%s' % (i, o, got, '' if got == exp[i] else '   <-- stated: %r' % (exp[i],)))
        if ctx.model:
            print('model trace   :', ops_model_obs(ctx.model.call('c20_ops', [ops_data(c['base']), c['encoder'].encode(),
                                                                             encoded_body(OPS_BASES[c['base']][2], c['encoder']), model_ops])))
        return 0
    if 'gen' in c and 'nest' in c['gen']:
        fs, pos, H, blank = make_nest(c['gen']['nest'])
        data = H + blank + unhex(c['body'])
    elif 'gen' in c:
        fs, H, blank = make_big(c['gen'])
        data = H + blank + unhex(c['body'])
        print('header block: %d fields, %d bytes (with the blank line), line ends %s; body %r' % (len(fs), len(H) + len(blank), c['gen']['eol'], unhex(c['body'])))
    else:
        data = unhex(c['data'])
    print('data          :', data if len(data) < 3000 else data[:300] + b' ... ' + data[-300:])
    if c.get('kind') == '7bit':
        which = c.get('encoder')
        e = Envelope('sender@example.com', ['r1@example.com'])
        e.parse(data)
        try:
            e.encode_7bit({None: None, 'base64': encode_base64, 'quoted-printable': encode_quopri}[which])
            print('implementation: encode_7bit(%s) ->' % which, e.flatten())
        except Exception as ex:
            print('implementation: encode_7bit(%s) raises %r' % (which, ex))
        return 0
    def ab(flat):
        return flat if len(flat[0]) + len(flat[1]) < 3000 else (flat[0][:150] + b' ... ' + flat[0][-150:], flat[1][:300])
    try:
        e = Envelope('sender@example.com', ['r1@example.com', 'r2@example.net'])
        e.parse(data)
        print('implementation: parse() ok; message (body) attribute starts %r' % (e.message[:200],))
        flat = e.flatten()
        print('implementation: flatten() =', ab(flat))
        if 'body' in c:
            print('expected body  :', unhex(c['body'])[:300], '-> body', 'UNCHANGED' if flat[1] == unhex(c['body']) else 'CHANGED')
        e2 = Envelope(); e2.parse(flat[0] + flat[1])
        print('implementation: re-parsed  =', ab(e2.flatten()))
        if c.get('kind') == 'long-line' and len(data) < 3000:
            m = re.search(br'\r?\n\s*?\n', data)
            hd = data[:m.end(0)] if m else data
            fl = email_folds(hd)
            print('message has %d header fields (email cannot re-fold: %r); flatten() wrote %d' % (
                len(fl), [i for i, x in enumerate(fl) if not x], len(split_fields(flat[0][:-2]))))
            if ctx.model:
                print('model (_msg_generator, fresh buffers):', ctx.model.call('c20_parse_flatten_x', [data, fl]))
        print('implementation: copy probe =', mutation_probe(e, flat))
    except Exception as ex:
        print('implementation: raises %s: %s' % (exc_name(ex), str(ex)[:200]))
    if ctx.model and len(data) < 3000:
        print('model (class codec):', ctx.model.call('c20_parse_flatten', data))
    return 0
