"""C01 - accepted mail is never lost: every recipient reaches a final disposition."""
from vp import qharness

ASSUMPTIONS = [
    'store and relay pools unbounded (bounded pools: known finding D10)',
    'relay results meet the relay contract in the judged runs (a separate stream with results outside the contract is compared with the model but not judged)',
    'storage announcements are generated for stored ids with their stored timestamp; announcements racing an enqueue() or a pending removal are flagged unfair and not judged for loss/resend',
    'virtual clock, gated DictStorage-backed store (every storage call is a yield point, as on disk/redis/cloud); the per-backend storage semantics are C15/C04',
]

CFGS = [dict(max_msgs=2, flush=True, relay_policy=True), dict(max_msgs=2, flush=True, relay_policy=True, backend='disk'), dict(max_msgs=2, flush=True, cross_codes=True), dict(max_msgs=2, flush=True, race_announce=True), dict(max_msgs=2, flush=True, case_twins=True), dict(max_msgs=3, flush=True, relay_pool=1), dict(max_msgs=3, flush=False, relay_pool=2, foreign=True),
        dict(max_msgs=2, flush=True, backend='disk'), dict(max_msgs=2, flush=False, backend='cloud'),
        dict(max_msgs=2, flush=True), dict(max_msgs=3, flush=False), dict(max_msgs=2, flush=True, junk=True),
        dict(max_msgs=1, flush=True), dict(max_msgs=2, flush=True, relay='pipe'), dict(max_msgs=2, flush=False, relay='pipe1'),
        dict(max_msgs=2, flush=True, relay='pipe', backend='disk')]


def run(ctx):
    for backend in ('dict', 'shelve', 'disk', 'cloud', 'redis'):
        qharness.scripted_rounds(ctx, ('c01',), backend)
        qharness.scripted_rounds(ctx, ('c01',), backend, rcpts=(100, 0, 2, 3))
        qharness.scripted_rounds(ctx, ('c01',), backend, rcpts=(2, 0, 100, 3))
        qharness.scripted_restart(ctx, ('c01',), backend)
    ctx.extra['rule'] = ('random schedules over {enqueue, release any pending storage/relay/load/wait gate with a random result '
                         '(relay: ok/temp/perm/other/mapping/sequence, a stream with results outside the contract; in the relay=pipe/pipe1 configurations the relay is the REAL PipeRelay (per-recipient or not) over scripted processes, exit status incl. death by signal + output being the ground truth; backoff: None/0/5/10), '
                         'advance the virtual clock, flush}; each run is then drained and the final disposition of every accepted recipient '
                         'is checked; every run is replayed on the Coq model and compared at every quiescent point; non-trivial = >= 2 attempts')
    qharness.explore(ctx, ('c01',), 600 if ctx.quick else 6000, 40, CFGS)


def replay(ctx, case):
    return qharness.replay_run(ctx, case)
