"""C09 - server behaviour does not depend on how client bytes are segmented or pipelined.

Metamorphic check on the REAL slimta.smtp.server.Server driven through the real
slimta.edge.smtp.SmtpEdge.handle / SmtpSession (scripted validators, recorder queue) over a
fake socket whose recv() returns scripted chunks and then end of file: every session byte
stream is replayed under many segmentations; the bytes written by the server, the handler
callback trace (with arguments and message content) and the way the session ends must be
the same for all of them (oracle 1), must be what the protocol reading of the stream says
for well-formed sessions - no body line executed, no command behind the end-of-data line
lost (oracle 2) - and are compared with coq/model/ServerStream.v (correspondence).
The two stream consumers are also compared on their own: IO.recv_line and
DataReader(io, max_size).recv() (result, new io.recv_buffer, exactly which pieces were taken
from the socket), the latter exhaustively over a small alphabet x limits x cuts.

Reused from props/c07.py (imported, not copied): the recording SmtpSession subclass, the
scripted validator class, the recorder queue, the PtrLookup stub."""
import re, logging

import slimta.edge.smtp as edge_mod
from slimta.edge.smtp import SmtpEdge
from slimta.smtp.server import Server
from slimta.smtp.io import IO
from slimta.smtp.datareader import DataReader
from slimta.smtp import ConnectionLost, MessageTooBig

from vp.core import B
from vp.fakes import ScriptSocket
from props import c07 as S7

ASSUMPTIONS = [
    'Server built by SmtpEdge with auth=False (AUTH is an unknown command); context=None, or a fake context whose handshake fails (STARTTLS offered): the channel swap after a successful handshake is C08',
    'STARTTLS sessions use a subclass of the real SmtpSession that adds the documented Server hook handlers.STARTTLS(reply, extensions) with a scripted verdict',
    'handlers object is the real slimta.edge.smtp.SmtpSession; validators decide per command line read (keep / set a code / raise); queue results ok or QueueError with a reply',
    'the socket is a list of non-empty recv() results followed by end of file; no timeouts fire (C14)',
    'the code under test includes fixes/d13-size-limit-drain.diff (model mirrors the repaired DataReader); on a tree without it the check reports the D13 inputs as VIOLATION',
]

KEEP, RAISE = S7.KEEP, S7.RAISE
CLOSED, CRASHED, LOST, LOST_IN_DATA = 1, 2, 3, 4
FIN_NAMES = {1: 'closed', 2: 'crashed', 3: 'eof-between-commands', 4: 'eof-inside-message', 9: 'model-out-of-fuel'}
EOD_WS = b' \t\r\n\f\v'

logging.getLogger('slimta').addHandler(logging.NullHandler())
logging.getLogger('slimta').propagate = False


def cap(chunks):
    """what socket.recv(4096) can return: no piece longer than 4096 bytes, none empty"""
    out = []
    for c in chunks:
        for i in range(0, len(c), 4096):
            out.append(c[i:i + 4096])
    return out


# ---------------------------------------------------------------- the implementation on a scripted socket
class EnvList(object):
    """items[i] of the c07 script interface: the decisions for the i-th command line read"""

    def __init__(self, envs):
        self.envs = envs

    def __getitem__(self, i):
        if 0 <= i < len(self.envs):
            return self.envs[i]
        return DEFAULT_ENV


def env(v1=KEEP, v2=KEEP, v3=KEEP, q=0, vt=KEEP):
    return dict(v1=v1, v2=v2, v3=v3, q=q, qkind='queue', vt=vt, tls=0)


DEFAULT_ENV = env()


def enc_env(e):
    return [e['v1'], e['v2'], e['v3'], e['q'], e.get('vt', KEEP)]


class StreamScript(object):
    """what c07's TraceSession / Validators / RecorderQueue talk to; `cur` is the index of
    the command line the server is working on (-1: connection start / banner)"""

    def __init__(self, vb, envs, sock):
        self.vb = vb
        self.items = EnvList(envs)
        self.sock = sock
        self.cur = -1
        self.events = {-1: []}
        self.marks = []          # len(sock.sent) when the server got command line i
        self.in_cmd = False
        self.server = None
        self.session = None
        self.cfg = dict(imm_ok=0)
        self.held = None         # (bytes, complete lines, head) buffered when the server read past the end of the script

    def verdict(self, slot):
        if self.cur < 0:
            return self.vb if slot == 'v1' else KEEP
        return self.items[self.cur][slot]

    def ev(self, e):
        self.events.setdefault(self.cur, []).append(e)

    def next_line(self):
        self.marks.append(len(self.sock.sent))
        self.cur += 1


class EofSocket(ScriptSocket):
    def __init__(self, chunks):
        super(EofSocket, self).__init__(chunks)
        self.eof_hit = False
        self.eof_in_cmd = None
        self.script = None

    def recv(self, n=4096):
        if not self.chunks and not self.eof_hit and self.script.in_cmd and self.script.server is not None:
            # The client has sent everything it is going to send before it sees replies.  A real client
            # would now wait: the server must not ask for more input while a complete command line it
            # has not answered yet sits in io.recv_buffer (both sides would wait for ever).
            held = self.script.server.io.recv_buffer
            if b'\n' in held:
                self.script.held = (len(held), held.count(b'\n'), bytes(held[:120]))
        r = super(EofSocket, self).recv(n)
        if r == b'' and not self.eof_hit:
            self.eof_hit = True
            self.eof_in_cmd = self.script.in_cmd
        return r


class StreamServer(Server):
    """the real Server; IO.recv_command is wrapped (from outside) only to count the command
    lines the server has read, so that decisions and outputs can be attributed to a line"""

    def __init__(self, *a, **kw):
        super(StreamServer, self).__init__(*a, **kw)
        sc = S7.CURRENT['script']
        sc.server = self
        orig = self.io.recv_command

        def recv_command():
            sc.in_cmd = True
            r = orig()
            sc.in_cmd = False
            sc.next_line()
            return r
        self.io.recv_command = recv_command


def reply_codes(seg):
    codes = []
    for ln in seg.split(b'\r\n'):
        if not ln:
            continue
        m = re.match(br'^(\d\d\d)([ -])', ln)
        if not m:
            codes.append(-1)
        elif m.group(2) == b' ':
            codes.append(int(m.group(1)))
    return tuple(codes)


class HookSession(S7.TraceSession):
    """SmtpSession + the documented Server hook handlers.STARTTLS(reply, extensions): a scripted
    verdict may refuse STARTTLS (the session then goes on in clear text)"""

    def STARTTLS(self, reply, extensions):
        s = self._script
        v = s.verdict('vt')
        if v == RAISE:
            s.ev(('starttls-hook', None))
            raise S7.Scripted('STARTTLS hook raises')
        if v != KEEP:
            reply.code = str(v)
            reply.message = 'scripted refusal'
        s.ev(('starttls-hook', int(reply.code)))


def run_impl(mx, vb, envs, chunks, ctx_on=False):
    """-> dict(sent=bytes written, outs=[(reply codes, events)] per line (first: banner), fin, trace, unread).
    ctx_on: Server(context=...) so that STARTTLS is offered; a handshake, if one is started, fails"""
    sock = EofSocket(list(chunks))
    script = StreamScript(vb, envs, sock)
    sock.script = script
    S7.CURRENT['script'] = script
    edge = SmtpEdge(None, S7.RecorderQueue(script), max_size=mx, validator_class=S7.Validators,
                    auth=False, context=S7.FakeContext(script) if ctx_on else None, hostname='verif.example',
                    session_class=HookSession if ctx_on else S7.TraceSession)
    old = (edge_mod.Server, edge_mod.PtrLookup)
    edge_mod.Server, edge_mod.PtrLookup = StreamServer, S7.FakePtr
    exc = None
    try:
        try:
            edge.handle(sock, ('192.0.2.1', 4321))
        except BaseException as e:        # what would kill the connection's greenlet
            exc = e
    finally:
        edge_mod.Server, edge_mod.PtrLookup = old
    if exc is not None:
        fin = CRASHED
    elif sock.eof_hit:
        fin = LOST if sock.eof_in_cmd else LOST_IN_DATA
    else:
        fin = CLOSED
    marks = script.marks + [len(sock.sent)]
    outs = [(reply_codes(sock.sent[:marks[0]]), tuple(script.events.get(-1, [])))]
    for i in range(len(marks) - 1):
        outs.append((reply_codes(sock.sent[marks[i]:marks[i + 1]]), tuple(script.events.get(i, []))))
    trace = tuple(e for o in outs for e in o[1])
    return dict(sent=sock.sent, outs=outs, fin=fin, trace=trace, unread=sock.unread(), held=script.held,
                exc=type(exc).__name__ if exc is not None else None)


def observable(r):
    return (r['sent'], r['trace'], r['fin'])


# ---------------------------------------------------------------- model side
def _optb(v):
    return B(v[0]) if v else None


def canon_model(o):
    outs = []
    for (reps, evs, fin) in o[0]:
        es = []
        for e in evs:
            if e[0] == 0:
                ps = tuple((B(k), _optb(v)) for (k, v) in e[3])
                es.append(('call', e[1], B(e[2]), ps, e[4][0] if e[4] else None))
            elif e[0] == 1:
                es.append(('tls',))
            else:
                es.append(('queue', B(e[1]), tuple(B(r) for r in e[2])))
        outs.append((tuple(reps), tuple(es)))
    items = [(_optb(i[0]), _optb(i[1]), B(i[2]), i[3]) for i in o[2]]
    return dict(outs=outs, fin=o[1], items=items)


def model_inputs(case, chunks):
    return [[case['mx']] if case['mx'] is not None else [], int(bool(case.get('ctx'))), case['vb'], [enc_env(e) for e in case['envs']], b'', list(chunks)]


# ---------------------------------------------------------------- segmentations
def seg_whole(s):
    return [s] if s else []


def seg_bytes(s):
    return [s[i:i + 1] for i in range(len(s))]


def seg_lines(s):
    out = re.findall(br'[^\n]*\n|[^\n]+$', s)
    return [x for x in out if x]


def seg_random(s, rng):
    n = len(s)
    if n < 2:
        return seg_whole(s)
    k = rng.choice([1, 1, 2, 3, 5, 9])
    cuts = sorted(set(rng.randrange(1, n) for _ in range(k)))
    out, p = [], 0
    for c in cuts + [n]:
        out.append(s[p:c])
        p = c
    return out


def seg_cut(s, i):
    return [x for x in (s[:i], s[i:]) if x]


def build_chunks(s, spec):
    """segmentation spec (JSON-able, small) -> the recv() results"""
    kind = spec[0]
    if kind == 'whole':
        c = seg_whole(s)
    elif kind == 'lines':
        c = seg_lines(s)
    elif kind == 'bytes':
        c = seg_bytes(s)
    elif kind == 'fixed':
        c = [s[i:i + spec[1]] for i in range(0, len(s), spec[1])]
    elif kind == 'cuts':
        c, p = [], 0
        for q in sorted(set(spec[1])) + [len(s)]:
            if p < q <= len(s):
                c.append(s[p:q])
                p = q
    else:
        raise ValueError(spec)
    return cap([x for x in c if x])


def seg_name(spec):
    return spec[0] if len(spec) == 1 else '%s %s' % (spec[0], spec[1])


def segmentations(case, rng, every_cut_upto=60, nrandom=3):
    """list of segmentation specs for the stream of `case`"""
    s = case['stream']
    n = len(s)
    if case.get('segs'):
        return [tuple(x) for x in case['segs']]
    segs = [('whole',), ('lines',), ('bytes',)]
    for k in range(nrandom):
        if n >= 2:
            segs.append(('cuts', sorted(set(rng.randrange(1, n) for _ in range(rng.choice([1, 1, 2, 3, 5, 9]))))))
    if n <= every_cut_upto:
        for i in range(1, n):
            segs.append(('cuts', [i]))
    else:
        for k in range(2):
            segs.append(('cuts', [near_line_cut(s, rng)]))
    for cuts in case.get('extra_cuts', ()):
        segs.append(('cuts', sorted(cuts)))
    return segs


def near_line_cut(s, rng):
    """a cut position within two bytes of a line end (where the interesting states are)"""
    ends = [m.end() for m in re.finditer(b'\n', s)]
    if not ends:
        return max(1, len(s) // 2)
    p = rng.choice(ends) + rng.choice([-2, -1, 0, 1, 2])
    return min(max(p, 1), max(len(s) - 1, 1))


# ---------------------------------------------------------------- session streams
def is_eod_line(line_with_lf):
    return line_with_lf[:1] == b'.' and line_with_lf[1:].strip(EOD_WS) == b'' and line_with_lf.endswith(b'\n')


BODY_TEXT = [b'Subject: message %(k)d', b'', b'hello from body-%(k)d', b'a line', b'x' * 30, b'From: a@b', b' folded']
BODY_CMD = [b'QUIT', b'RSET', b'MAIL FROM:<inbody%(k)d@x.example>', b'RCPT TO:<inbody%(k)d@x.example>', b'DATA', b'NOOP',
            b'EHLO inbody%(k)d', b'HELO inbody%(k)d', b'quit', b'STARTTLS']
BODY_DOT = [b'..', b'..x', b'...', b'.. ', b'.x', b'. x', b'..QUIT', b'.MAIL FROM:<inbody%(k)d@x.example>']
BODY_BIN = [b'\xff\xfe: x', b'caf\xc3\xa9 \xe2\x82\xac', b'a\rb', b'\x00\x01\x7f', b'.\rx', b'. .', b'\t', b'y' * 300]
EODS = [b'.\r\n', b'.\r\n', b'.\r\n', b'.\n', b'. \r\n', b'.\t\n']
GARBAGE = [b'', b'123 x', b' NOOP', b'FOO bar', b'MAIL', b'MAIL FROM:<a', b'RCPT TO:<r> X', b'NOOP x y', b'\xc3\xa9 x', b'VRFY a',
           b'DATA now', b'AUTH PLAIN AHVzZXIAcGFzcw==', b'noop', b'RSET x', b'HAVE_DATA']
FATAL_GARBAGE = [b'EHLO \xff\xfe', b'MAIL FROM:<\xffs>', b'RCPT']      # 501/421 and the connection is dropped


def make_body(rng, k, kind):
    """-> list of body lines (without end of line)"""
    if kind == 'empty':
        return []
    n = rng.choice([1, 2, 3, 5, 8])
    pool = {'text': BODY_TEXT, 'cmd': BODY_TEXT + BODY_CMD * 2, 'dots': BODY_TEXT + BODY_DOT * 2,
            'mixed': BODY_TEXT + BODY_CMD + BODY_DOT + BODY_BIN}[kind]
    return [_fmt(rng.choice(pool), k) for _ in range(n)]


def _fmt(t, k):
    return t.replace(b'%(k)d', b'%d' % k)


def undot(line_with_eol):
    return line_with_eol[1:] if line_with_eol[:1] == b'.' else line_with_eol


def gen_session(rng, profile='clean'):
    """A pipelined client byte stream with its protocol reading.
    profile: clean (well-formed, every verdict keep: the expected behaviour is known),
             verdicts (well-formed lines, random application decisions),
             adversarial (garbage lines, refused DATA followed by a body, truncation)"""
    eol = lambda: b'\r\n' if rng.random() < 0.85 else b'\n'
    lines = []            # (bytes with eol, role)
    msgs = []
    greet = rng.choice([b'EHLO a.example', b'EHLO a.example', b'ehlo  B.example  ', b'EHLO [192.0.2.7]'])
    if profile != 'clean' and rng.random() < 0.15:
        greet = b'HELO a.example'       # wipes the SIZE extension
    lines.append((greet + eol(), 'greet'))
    ntx = rng.choice([1, 1, 2, 2, 3])
    alive = True
    for k in range(ntx):
        if profile == 'adversarial' and rng.random() < 0.3:
            lines.append((rng.choice(GARBAGE) + eol(), 'garbage'))
        lines.append((b'MAIL FROM:<s%d@x.example>' % k + rng.choice([b'', b'', b' BODY=8BITMIME']) + eol(), 'mail'))
        nr = rng.choice([1, 1, 2])
        if profile == 'adversarial' and rng.random() < 0.2:
            nr = 0                       # DATA will be refused (503): the body lines ARE commands then
        for j in range(nr):
            lines.append((b'RCPT TO:<r%d-%d@x.example>' % (k, j) + eol(), 'rcpt'))
        lines.append((rng.choice([b'DATA', b'DATA', b'data', b'DATA  ']) + eol(), 'data'))
        kind = rng.choice(['empty', 'text', 'cmd', 'dots', 'mixed', 'cmd', 'mixed'])
        body = []
        for l in make_body(rng, k, kind):
            le = l + eol()
            if is_eod_line(le):          # never an accidental end-of-data line inside the body
                le = b'x' + le
            body.append(le)
        eod = rng.choice(EODS)
        wire = b''.join(body) + eod
        msgs.append(dict(k=k, content=b''.join(undot(l) for l in body), wire_len=len(wire), refused=(nr == 0)))
        for l in body:
            lines.append((l, 'body'))
        lines.append((eod, 'eod'))
        after = rng.choice(['mail', 'mail', 'noop', 'none'])
        msgs[-1]['after'] = after
        if after == 'mail':
            lines.append((b'MAIL FROM:<after%d@x.example>' % k + eol(), 'after'))
            lines.append((b'RSET' + eol(), 'after-rset'))
        elif after == 'noop':
            lines.append((b'NOOP' + eol(), 'noop'))
        if profile == 'adversarial' and rng.random() < 0.08:
            lines.append((rng.choice(FATAL_GARBAGE) + eol(), 'fatal'))
    end = rng.choice(['quit', 'quit', 'quit', 'eof'])
    if end == 'quit':
        lines.append((b'QUIT' + eol(), 'quit'))
    stream = b''.join(l for l, _ in lines)
    if profile == 'adversarial' and rng.random() < 0.25:
        stream = stream[:rng.randrange(1, len(stream) + 1)]       # connection cut anywhere (mid line, mid body)
    # the size limit: around the size of one of the messages, tiny, huge, or none
    r = rng.random()
    if r < 0.15:
        mx = None
    elif r < 0.75:
        m = rng.choice(msgs)
        mx = max(1, m['wire_len'] + rng.choice([-3, -1, 0, 0, 1, 4]))
    else:
        mx = rng.choice([5, 40, 100000])
    nlines = stream.count(b'\n') + 1
    if profile == 'clean':
        envs = []
    else:
        envs = []
        for i in range(nlines):
            if rng.random() < 0.12:
                envs.append(env(v1=rng.choice([550, 450, 550, 421, RAISE]), v2=rng.choice([KEEP, KEEP, 550, 421]),
                                v3=rng.choice([KEEP, KEEP, 451]), q=rng.choice([0, 0, 450, 550])))
            elif rng.random() < 0.1:
                envs.append(env(v2=rng.choice([550, 450, 421, RAISE]), v3=rng.choice([KEEP, 250, 421]), q=rng.choice([0, 450])))
            else:
                envs.append(env())
    return dict(stream=stream, mx=mx, vb=KEEP, envs=envs, profile=profile,
                roles=[r for _, r in lines], msgs=msgs, end=end)


def expected_clean(case):
    """protocol reading of a clean session (every verdict keep except the STARTTLS hook, well formed,
    SIZE limit mx, STARTTLS offered iff ctx): the reply codes and the callback trace the property demands"""
    mx = case['mx']
    reps = [220]
    tr = [('call', S7.K_BANNER, b'', (), 220)]
    stream = case['stream']
    pos_lines = [l for l in re.findall(br'[^\n]*\n', stream)]
    i = 0
    k = 0
    greeted = False
    offered = bool(case.get('ctx'))
    vt = case.get('vt', KEEP)
    while i < len(pos_lines):
        l = pos_lines[i]
        w = l.strip().upper()
        m = re.match(br'(?i)(ehlo|helo)\s+(\S+)', l)
        if m:
            helo = m.group(1).upper() == b'HELO'
            reps.append(250)
            tr.append(('call', S7.K_HELO if helo else S7.K_EHLO, m.group(2), (), 250))
            greeted = True
            if helo:
                offered = False          # Extensions.reset(): STARTTLS and SIZE are gone
                mx = None
            i += 1
        elif w.startswith(b'STARTTLS'):
            i += 1
            if not offered:
                reps.append(500)
            elif w != b'STARTTLS':
                reps.append(501)
            elif not greeted:
                reps.append(503)
            elif vt == KEEP:             # 220, the (fake) handshake fails: 421, session closed
                tr.append(('starttls-hook', 220))
                reps.extend([220, 421])
                return tuple(reps), tuple(tr), CLOSED
            elif vt == RAISE:
                tr.append(('starttls-hook', None))
                reps.append(421)
                return tuple(reps), tuple(tr), CRASHED
            else:
                tr.append(('starttls-hook', vt))
                reps.append(vt)
                if vt in (221, 421):
                    return tuple(reps), tuple(tr), CLOSED
        elif w.startswith(b'MAIL FROM:<S'):
            msg = case['msgs'][k]
            addr = re.search(br'<([^>]*)>', l).group(1)
            ps = ((b'BODY', b'8BITMIME'),) if b'BODY=' in l else ()
            reps.append(250); tr.append(('call', S7.K_MAIL, addr, ps, 250))
            i += 1
            rcpts = []
            while pos_lines[i].upper().startswith(b'RCPT'):
                a = re.search(br'<([^>]*)>', pos_lines[i]).group(1)
                rcpts.append(a)
                reps.append(250); tr.append(('call', S7.K_RCPT, a, (), 250))
                i += 1
            assert pos_lines[i].strip().upper() == b'DATA', pos_lines[i]
            reps.append(354); tr.append(('call', S7.K_DATA, b'', (), 354))
            i += 1
            while not is_eod_line(pos_lines[i]):
                i += 1
            i += 1
            if mx and msg['wire_len'] > mx:
                reps.append(552); tr.append(('call', S7.K_HAVE, b'', (), 552))
            else:
                tr.append(('queue', addr, tuple(rcpts)))
                reps.append(250); tr.append(('call', S7.K_HAVE, msg['content'], (), 250))
            k += 1
        elif w.startswith(b'MAIL FROM:<AFTER'):
            addr = re.search(br'<([^>]*)>', l).group(1)
            reps.append(250); tr.append(('call', S7.K_MAIL, addr, (), 250))
            i += 1
        elif w == b'RSET':
            reps.append(250); tr.append(('call', S7.K_RSET, b'', (), 250))
            i += 1
        elif w == b'NOOP' or w.startswith(b'NOOP '):
            reps.append(250)
            i += 1
        elif w.startswith(b'XYZZY '):
            reps.append(500)
            i += 1
        elif w == b'QUIT':
            reps.append(221)
            i += 1
        else:
            raise AssertionError('clean session has an unexpected line %r' % l)
    return tuple(reps), tuple(tr), (CLOSED if case['end'] == 'quit' else LOST)


def oversize_involved(case):
    """could the size limit trip at all on this stream (under some way of counting)?"""
    mx = case['mx']
    return bool(mx) and len(case['stream']) > mx


def case_json(case, seg=None, other=None):
    """replayable and SMALL: a generated long stream is named by its parameters, a segmentation by its spec"""
    j = dict(max_size=case['mx'], banner_verdict=case['vb'], envs=[enc_env(e) for e in case['envs'][:40]],
             profile=case.get('profile'), context=int(bool(case.get('ctx'))))
    if case.get('gen'):
        j['gen'] = case['gen']
    else:
        j['stream'] = case['stream']
    if seg is not None:
        j['segmentation'] = list(seg)
    if other is not None:
        j['other_segmentation'] = list(other)
    return j


def short(b, n=300):
    return b if len(b) <= n else b[:n // 2] + b' ...(%d bytes)... ' % (len(b) - n) + b[-n // 2:]


def shortl(l, n=40):
    l = list(l)
    return l if len(l) <= n else l[:n // 2] + ['... %d more ...' % (len(l) - n)] + l[-n // 2:]


def describe(r):
    return dict(replies=shortl([list(o[0]) for o in r['outs']]), fin=FIN_NAMES.get(r['fin'], r['fin']), sent=short(r['sent'], 600),
                trace=shortl([[short(x) if isinstance(x, bytes) else x for x in e] for e in r['trace']]), exc=r.get('exc'))


def key_for(case, base):
    return 'c09:size-limit-' + base if oversize_involved(case) else 'c09:' + base


def for_model(outs):
    """the STARTTLS hook call has no constructor in the model's event type: not compared with the model"""
    return [(reps, tuple(e for e in evs if e[0] != 'starttls-hook')) for reps, evs in outs]


def check_stream(ctx, case, kind, every_cut_upto=60, nrandom=3, model_all=True):
    """one stream x its segmentations: oracle 1 (all equal), oracle 2 (clean sessions), correspondence"""
    stream = case['stream']
    segs = segmentations(case, ctx.rng, every_cut_upto, nrandom)
    results = []
    for spec in segs:
        chunks = build_chunks(stream, spec)
        results.append((spec, chunks, run_impl(case['mx'], case['vb'], case['envs'], chunks, case.get('ctx'))))
    base_name, base_chunks, base = results[0]
    nontriv = any(e[0] == 'call' and e[1] == S7.K_HAVE for e in base['trace']) or any(c >= 400 for o in base['outs'] for c in o[0])
    ctx.evaluated((kind, case.get('gen') or stream, case['mx'], repr(case['envs'][:40])), nontrivial=nontriv)
    ctx.count('streams:' + kind)
    ctx.count('sessions-run', len(results))
    ctx.count('fin:' + FIN_NAMES.get(base['fin'], '?'))
    for o in base['outs']:
        for c in o[0]:
            ctx.count('reply:%d' % c)
    # oracle 0: the server never waits for input while it holds complete, unanswered command lines
    for name, chunks, r in results:
        if r.get('held'):
            ctx.fail('c09:server-reads-while-holding-unanswered-commands', case_json(case, name),
                     dict(what='after the last of the client\'s bytes had arrived (segmentation [%s], last recv() result %d bytes) the server called recv() again while '
                               'io.recv_buffer held %d bytes with %d complete command lines it had not answered (%r...): a client waiting for the replies and the '
                               'server wait for each other; at end of file the commands are dropped' % (
                                   seg_name(name), len(chunks[-1]) if chunks else 0, r['held'][0], r['held'][1], r['held'][2][:60]),
                          got=describe(r)))
            break
    # oracle 1: every segmentation behaves like the first one
    for name, chunks, r in results[1:]:
        if observable(r) != observable(base):
            what = 'the same %d-byte client stream gives different server behaviour when it arrives as [%s] than when it arrives as [%s]: ' % (
                len(stream), seg_name(name), seg_name(base_name))
            if r['sent'] != base['sent']:
                what += 'replies %r vs %r; ' % (r['sent'][-200:], base['sent'][-200:])
            if r['trace'] != base['trace']:
                what += 'callback traces differ (%d vs %d callbacks); ' % (len(r['trace']), len(base['trace']))
            if r['fin'] != base['fin']:
                what += 'session ends %s vs %s' % (FIN_NAMES[r['fin']], FIN_NAMES[base['fin']])
            ctx.fail(key_for(case, 'segmentation-dependent'), case_json(case, name, base_name),
                     dict(what=what, this=describe(r), other=describe(base)))
            break
    # oracle 2: the protocol reading of a clean session
    if case.get('profile') == 'clean':
        want_reps, want_tr, want_fin = expected_clean(case)
        for name, chunks, r in results:
            got_reps = tuple(c for o in r['outs'] for c in o[0])
            if (got_reps, r['trace'], r['fin']) == (want_reps, want_tr, want_fin):
                continue
            inbody = [e for e in r['trace'] if e[0] == 'call' and e[1] != S7.K_HAVE and b'inbody' in e[2]]
            got_after = set(e[2] for e in r['trace'] if e[0] == 'call' and e[1] == S7.K_MAIL and e[2].startswith(b'after'))
            want_after = set(e[2] for e in want_tr if e[0] == 'call' and e[1] == S7.K_MAIL and e[2].startswith(b'after'))
            inarg = [e for e in r['trace'] if e[0] == 'call' and b'inarg' in e[2]]
            if inarg or (case.get('gen', {}).get('kind') == 'longcmd' and len(got_reps) > len(want_reps)):
                base_key = 'argument-executed-as-commands'
                what = 'one over-long command line was answered as several commands: %s; replies %r, expected %r' % (
                    'its argument text was executed: callback %r' % (inarg[0],) if inarg else 'the line was cut', got_reps, want_reps)
            elif inbody:
                base_key, what = 'content-executed-as-commands', 'a line of a message body was executed as a command: callback %r' % (inbody[0],)
            elif len(got_reps) > len(want_reps):
                base_key, what = 'content-executed-as-commands', 'the server sent %d replies where the stream holds %d commands: body lines were answered as commands (replies %r, expected %r)' % (len(got_reps), len(want_reps), got_reps, want_reps)
            elif want_after - got_after or len(got_reps) < len(want_reps):
                base_key, what = 'commands-swallowed', 'commands pipelined behind a message (or behind a STARTTLS that led to no handshake) never reached the command parser: missing %r; replies %r, expected %r' % (
                    sorted(want_after - got_after), got_reps, want_reps)
            elif [e[4] for e in r['trace'] if e[0] == 'call' and e[1] == S7.K_HAVE] != [e[4] for e in want_tr if e[0] == 'call' and e[1] == S7.K_HAVE]:
                base_key = 'limit-decision-depends-on-buffering'
                what = 'the size limit %r was applied to something else than the message: content callbacks answered %r, by the message sizes %r it must be %r' % (
                    case['mx'], [e[4] for e in r['trace'] if e[0] == 'call' and e[1] == S7.K_HAVE], [m['wire_len'] for m in case['msgs']],
                    [e[4] for e in want_tr if e[0] == 'call' and e[1] == S7.K_HAVE])
            elif [e[2] for e in r['trace'] if e[0] == 'call' and e[1] == S7.K_HAVE] != [e[2] for e in want_tr if e[0] == 'call' and e[1] == S7.K_HAVE]:
                g = [e[2] for e in r['trace'] if e[0] == 'call' and e[1] == S7.K_HAVE]
                w = [e[2] for e in want_tr if e[0] == 'call' and e[1] == S7.K_HAVE]
                d = [(len(a), len(b)) for a, b in zip(g, w) if a != b]
                base_key, what = 'content-altered', 'the message content handed to HAVE_DATA is not the content the client sent (lengths got/sent %r): %r' % (
                    d, [short(a[-60:]) for a, b in zip(g, w) if a != b][:2])
            else:
                base_key, what = 'unexpected-behaviour', 'replies/callbacks differ from the protocol reading: replies %r expected %r' % (got_reps, want_reps)
            ctx.fail(key_for(case, base_key), case_json(case, name),
                     dict(what=what if len(what) < 1500 else what[:1500] + ' ...', got=describe(r),
                          expected=dict(replies=shortl(want_reps), fin=FIN_NAMES[want_fin],
                                        trace=shortl([[short(x) if isinstance(x, bytes) else x for x in e] for e in want_tr]))))
            break
    # correspondence with the model (incremental model on the very chunks)
    todo = results if model_all is True else results[:int(model_all)]
    mouts = ctx.model.batch('c09_run', [model_inputs(case, chunks) for _, chunks, _ in todo])
    for (name, chunks, r), mo in zip(todo, mouts):
        m = canon_model(mo)
        if m['fin'] == 9:
            ctx.mismatch('model-out-of-fuel', case_json(case, name), describe(r), m['outs'])
        elif for_model(r['outs']) != m['outs'] or r['fin'] != m['fin']:
            ctx.mismatch('replies/callbacks/ended', case_json(case, name),
                         dict(replies=[list(o[0]) for o in r['outs']], fin=r['fin'], exc=r.get('exc')),
                         dict(replies=[list(o[0]) for o in m['outs']], fin=m['fin']))
            break
    return base


# ---------------------------------------------------------------- the two consumers on their own
def impl_recv_line(buf, chunks):
    sock = ScriptSocket(list(chunks))
    io = IO(sock, ('h', 25))
    io.recv_buffer = buf
    try:
        l = io.recv_line()
    except ConnectionLost:
        return (1,)
    return (0, l, io.recv_buffer, len(sock.chunks))


def impl_reader(ms, buf, chunks):
    sock = ScriptSocket(list(chunks))
    io = IO(sock, ('h', 25))
    io.recv_buffer = buf
    try:
        d = DataReader(io, ms).recv()
    except ConnectionLost:
        return (1,)
    except MessageTooBig:
        return (2, io.recv_buffer, len(sock.chunks))
    return (0, d, io.recv_buffer, len(sock.chunks))


def canon_prim(o):
    if o[0] == 0:
        return (0, B(o[1]), B(o[2]), o[3])
    if o[0] == 2:
        return (2, B(o[1]), o[2])
    return (o[0],)


def reader_outcome(o, chunks):
    """segmentation independent part: result and every unread byte"""
    if o[0] == 1:
        return (1,)
    k = o[-1]
    rest = b''.join(chunks[len(chunks) - k:]) if k else b''
    return o[:-2] + (o[-2] + rest,)


def ref_reader(ms, stream):
    """independent reference: split at the first end-of-data line; size = bytes up to and including it"""
    pos, out = 0, []
    while True:
        nl = stream.find(b'\n', pos)
        if nl < 0:
            return (1,)
        line = stream[pos:nl + 1]
        if is_eod_line(line):
            if ms and nl + 1 > ms:
                return (2, stream[nl + 1:])
            return (0, b''.join(out), stream[nl + 1:])
        out.append(undot(line))
        pos = nl + 1


def run_reader(ctx, jobs, kind):
    """jobs: (ms, stream, [(buf, chunks)...])"""
    flat = []
    for ms, stream, cuts in jobs:
        for buf, chunks in cuts:
            flat.append((ms, stream, buf, chunks))
    mo = ctx.model.batch('c09_recv', [[[ms] if ms is not None else [], buf, list(chunks)] for ms, _, buf, chunks in flat])
    by_stream = {}
    for (ms, stream, buf, chunks), o in zip(flat, mo):
        io_out = impl_reader(ms, buf, chunks)
        ctx.evaluations += 1
        ctx.count('reader-outcome:%s' % ['data', 'connection-lost', 'too-big'][io_out[0]])
        if io_out != canon_prim(o):
            ctx.mismatch('DataReader.recv', dict(max_size=ms, recv_buffer=buf, chunks=list(chunks)), io_out, canon_prim(o))
        oc = reader_outcome(io_out, chunks)
        want = ref_reader(ms, stream)
        case = dict(reader=True, max_size=ms, stream=stream, recv_buffer=buf, chunks=list(chunks))
        first = by_stream.setdefault((ms, stream), (oc, case))
        if first[0] != oc:
            big = 2 in (oc[0], first[0][0])
            ctx.fail('c09:size-limit-reader-segmentation-dependent' if big else 'c09:reader-segmentation-dependent', dict(case, other=first[1]),
                     'DataReader(io, %r).recv() on the same stream: %r here, %r with recv_buffer=%r chunks=%r' % (
                         ms, oc, first[0], first[1]['recv_buffer'], first[1]['chunks']))
        elif oc != want and oc[0] != 2 and want[0] != 2:
            ctx.fail('c09:reader-wrong-split', case, 'DataReader.recv() gave %r, the stream reads %r' % (oc, want))
        elif oc != want:
            ctx.fail('c09:size-limit-reader-wrong', case, 'DataReader(io, %r).recv() gave %r; by the stream (message bytes up to and including the end-of-data line) %r' % (ms, oc, want))
    ctx.count('reader-streams:' + kind, len(jobs))


def reader_cuts(stream, rng, every=True):
    cuts = [(b'', seg_whole(stream)), (stream, []), (b'', seg_bytes(stream))]
    n = len(stream)
    if every:
        for i in range(1, n):
            cuts.append((stream[:i], [stream[i:]]) if i % 2 else (b'', [stream[:i], stream[i:]]))
    else:
        for _ in range(3):
            i = rng.randrange(0, n + 1)
            cuts.append((stream[:i], cap(seg_random(stream[i:], rng))))
    return [(b, cap(c)) for b, c in cuts]


def reader_exhaustive(ctx, maxlen):
    import itertools
    alpha = [b'.', b'\r', b'\n', b'a']
    jobs = []
    n = 0
    for L in range(0, maxlen + 1):
        for t in itertools.product(alpha, repeat=L):
            body = b''.join(t)
            n += 1
            for tail in (b'', b'.\r\nQ\r\n'):
                stream = body + tail
                for ms in (None, 1, 3, len(body) + 2, len(body) + 3, len(body) + 4)[(0 if tail else 3):]:
                    jobs.append((ms, stream, reader_cuts(stream, ctx.rng)))
            if len(jobs) > 1500:
                run_reader(ctx, jobs, 'exhaustive')
                jobs = []
    run_reader(ctx, jobs, 'exhaustive')
    return n


def reader_random(ctx, count):
    rng = ctx.rng
    jobs = []
    for _ in range(count):
        nl = rng.randrange(0, 12)
        body = b''.join(bytes(rng.choice(b'ab.. \r\txyz') for _ in range(rng.randrange(0, 30))) + rng.choice([b'\r\n', b'\n']) for _ in range(nl))
        stream = body + rng.choice([b'.\r\n', b'.\n', b'', b'. \r\n']) + rng.choice([b'', b'QUIT\r\n', b'NOOP\r\nQUIT\r\n', b'.\r\n', b'MAIL'])
        first = ref_reader(None, stream)
        size = len(stream) - len(first[2]) if first[0] == 0 else len(stream)
        ms = rng.choice([None, 0, max(1, size - 1), size, size + 1, max(1, size // 2), 1, size + rng.randrange(0, 20)])
        jobs.append((ms, stream, reader_cuts(stream, rng, every=len(stream) <= 40)))
    run_reader(ctx, jobs, 'random')


def recv_line_4096(k, d, first, pre):
    """a first line of `first` bytes and a second one that ends exactly at byte 4096*k+d; `pre` bytes already buffered"""
    n = 4096 * k + d
    s = b'N' * first + b'\r\n' + b'x' * (n - first - 4) + b'\r\n'
    return s, s[:pre], cap([s[pre:]] if s[pre:] else [])


def run_recv_line(ctx, count):
    rng = ctx.rng
    ins = []
    for _ in range(count):
        s = b''.join(bytes(rng.choice(b'ab \r\r\n\nNOP') for _ in range(rng.randrange(0, 12))) for _ in range(rng.randrange(1, 4)))
        c = rng.randrange(0, len(s) + 1)
        ins.append((s, s[:c], cap(rng.choice([seg_whole, seg_bytes, lambda x: seg_random(x, rng)])(s[c:]))))
    gens = {}
    for k in (1, 2):             # lines that end exactly at a 4096-byte piece boundary, nothing behind them
        for d in (-1, 0, 1):
            for first in (10, 4000, 4094):
                for pre in (0, 5):
                    s, buf, chunks = recv_line_4096(k, d, first, pre)
                    gens[len(ins)] = dict(k=k, d=d, first=first, pre=pre)
                    ins.append((s, buf, chunks))
    outs = ctx.model.batch('c09_recv_line', [[buf, list(chunks)] for _, buf, chunks in ins])
    for idx, ((s, buf, chunks), o) in enumerate(zip(ins, outs)):
        io_out = impl_recv_line(buf, chunks)
        ctx.evaluations += 1
        small = dict(recv_line=True, gen=gens[idx]) if idx in gens else dict(recv_line=True, stream=s, recv_buffer=buf, chunks=list(chunks))
        if io_out != canon_prim(o):
            ctx.mismatch('IO.recv_line', small, tuple(short(x, 80) if isinstance(x, bytes) else x for x in io_out),
                         tuple(short(x, 80) if isinstance(x, bytes) else x for x in canon_prim(o)))
        i = s.find(b'\n')
        want = (1,) if i < 0 else (0, s[:i - 1] if s[:i].endswith(b'\r') else s[:i], s[i + 1:])
        got = io_out if io_out[0] == 1 else (0, io_out[1], io_out[2] + b''.join(chunks[len(chunks) - io_out[3]:] if io_out[3] else []))
        if got != want:
            ctx.fail('c09:recv-line-wrong-split', small,
                     'IO.recv_line gave %r, the stream reads %r' % (tuple(short(x, 80) if isinstance(x, bytes) else x for x in got),
                                                                    tuple(short(x, 80) if isinstance(x, bytes) else x for x in want)))


# ---------------------------------------------------------------- fixed scenarios
def tx(body, eod=b'.\r\n', k=0, nl=b'\r\n'):
    return b'MAIL FROM:<s%d@x.example>' % k + nl + b'RCPT TO:<r%d-0@x.example>' % k + nl + b'DATA' + nl + body + eod


def fixed_case(stream, mx, msgs, end='quit', profile='clean', envs=()):
    return dict(stream=stream, mx=mx, vb=KEEP, envs=list(envs), profile=profile, msgs=msgs, end=end, roles=[])


def corpus():
    """the D13 / D1 scenarios and their neighbours, run first"""
    C = []
    body = b'Subject: big\r\n\r\nMAIL FROM:<inbody0@x.example>\r\nQUIT\r\n' + b'x' * 40 + b'\r\n'
    m0 = dict(k=0, content=body, wire_len=len(body) + 3)
    s = b'EHLO a.example\r\n' + tx(body) + b'MAIL FROM:<after0@x.example>\r\nRSET\r\nQUIT\r\n'
    for mx in (20, len(body) + 2, len(body) + 3, 100000, None):
        C.append(fixed_case(s, mx, [m0]))
    # empty message, pipelined, followed by dot lines (D1)
    s = b'EHLO a.example\r\n' + tx(b'') + b'NOOP\r\n' + tx(b'..\r\n', k=1) + b'QUIT\r\n'
    C.append(fixed_case(s, 50, [dict(k=0, content=b'', wire_len=3), dict(k=1, content=b'.\r\n', wire_len=7)]))
    C.append(fixed_case(s, 5, [dict(k=0, content=b'', wire_len=3), dict(k=1, content=b'.\r\n', wire_len=7)]))
    C.append(fixed_case(s, 2, [dict(k=0, content=b'', wire_len=3), dict(k=1, content=b'.\r\n', wire_len=7)]))
    # a message longer than several socket pieces, limit in the middle
    big = b''.join(b'line %04d of a long message\r\n' % i for i in range(400))
    s = b'EHLO a.example\r\n' + tx(big) + b'MAIL FROM:<after0@x.example>\r\nRSET\r\n' + tx(b'small\r\n', k=1) + b'QUIT\r\n'
    for mx in (5000, len(big) + 3, len(big) + 2):
        C.append(fixed_case(s, mx, [dict(k=0, content=big, wire_len=len(big) + 3), dict(k=1, content=b'small\r\n', wire_len=10)]))
    return C


def short_sessions():
    """sessions of at most 60 bytes: cut at EVERY position"""
    S = []
    g = b'EHLO a\n'
    t = b'MAIL FROM:<s0@x>\nRCPT TO:<r@x>\nDATA\n'

    def mk(body_lines, eod, tail, mxs, end):
        body = b''.join(body_lines)
        stream = g + t + body + eod + tail
        assert len(stream) <= 60, (len(stream), stream)
        content = b''.join(undot(l) for l in body_lines)
        for mx in mxs:
            S.append(dict(stream=stream, mx=mx, vb=KEEP, envs=[], profile='short', msgs=[dict(k=0, content=content, wire_len=len(body + eod))],
                          end=end, roles=[]))
    mk([], b'.\n', b'NOOP\nQUIT\n', (None, 1, 2), 'quit')
    mk([b'QUIT\n'], b'.\n', b'NOOP\nQUIT\n', (None, 3, 6, 7, 8), 'quit')
    mk([b'..\n'], b'.\r\n', b'QUIT\n', (None, 5, 6, 7), 'quit')
    mk([b'RSET\n', b'..\n'], b'.\n', b'NOOP\n', (None, 4, 9, 10, 11), 'eof')
    mk([b'ab\r\n'], b'. \n', b'.\nQUIT\n', (None, 6, 7, 8), 'quit')
    mk([b'a\n'], b'.\n', b'', (None, 3, 4), 'eof')
    mk([b'NOOP\n'], b'', b'', (None, 3, 30), 'eof')          # no end-of-data line at all
    return S


# ---------------------------------------------------------------- long lines at receive-buffer boundaries
def gen_longline(L, delta, cont, mx, density='full'):
    """A session whose first message has ONE text line of L-delta bytes of 'X' that ends in '.' (cont='dot') or in
    '.text ...' (cont='dottext'), followed by pipelined RSET / MAIL / RCPT / DATA / second message / QUIT.
    Segmentations: line by line (reference), one burst, fixed read sizes, and two-piece cuts within +-3 bytes of
    every 4096*k mark counted from the start of the long line and from the start of the stream, and directly
    before / after the dots."""
    n = L - delta
    tail = b'.\r\n' if cont == 'dot' else b'.text of the same long line\r\n'
    body_lines = [b'Subject: one long line\r\n', b'\r\n', b'X' * n + tail, b'MAIL FROM:<inbody0@x.example>\r\n', b'after the long line\r\n']
    body = b''.join(body_lines)
    second = b'second message\r\n'
    stream = (b'EHLO a.example\r\n' + tx(body, k=0) + b'RSET\r\n' + tx(second, k=1) + b'QUIT\r\n')
    start = stream.index(b'X' * min(n, 16)) if n else stream.index(tail)
    dot = start + n
    eod = stream.index(b'\r\n.\r\n', dot) + 2
    # (the code under test scans an LF-free piece quadratically - regex .*\n from every offset - about 8 ms per
    #  4096-byte piece: the number of sessions per stream is what the time budget allows)
    cuts = set()
    nmarks = (dot + 3 - start) // 4096
    for base, spread in ((start, 3), (0, 3 if density == 'full' else 1)):
        k = 1
        while base + 4096 * k <= dot + 3:
            if density == 'full' or k <= 2 or (base == start and k >= nmarks - 1):
                for d in range(-spread, spread + 1):
                    cuts.add(base + 4096 * k + d)
            k += 1
    for q in (dot - 1, dot, dot + 1, dot + len(tail), eod, eod + 1, eod + 3):
        cuts.add(q)
    cuts = sorted(c for c in cuts if 0 < c < len(stream))
    segs = [('lines',), ('whole',), ('fixed', 1000), ('fixed', 4095), ('fixed', 4096), ('fixed', 4097)]
    if L <= 8192 and density == 'full':
        segs.append(('bytes',))
    if density == 'sample':          # the 64 KiB line in the quick tier
        segs = [('lines',), ('whole',), ('fixed', 1000)]
        cuts = [dot - 1, dot, dot + 1, start + 4096 * nmarks, start + 4096 * nmarks + 1, eod]
    segs += [('cuts', [c]) for c in cuts]
    return dict(stream=stream, mx=mx, vb=KEEP, envs=[], profile='clean', end='quit', roles=[], segs=segs,
                gen=dict(kind='longline', L=L, delta=delta, cont=cont, max_size=mx),
                msgs=[dict(k=0, content=body, wire_len=len(body) + 3), dict(k=1, content=second, wire_len=len(second) + 3)])


def longline_cases(quick):
    C = []
    if quick:
        for delta, cont in ((-1, 'dot'), (0, 'dot')):
            C.append(gen_longline(4096, delta, cont, None, 'lite'))
        for delta, cont, mx in ((0, 'dot', None), (1, 'dottext', None), (3, 'dot', 3000), (2, 'dottext', None)):
            C.append(gen_longline(8192, delta, cont, mx, 'lite'))
        C.append(gen_longline(65536, 0, 'dot', None, 'sample'))
        return C
    for L in (4096, 8192):
        for delta in (-2, -1, 0, 1, 2, 3):
            for cont in ('dot', 'dottext'):
                for mx in (None, 3000):
                    C.append(gen_longline(L, delta, cont, mx, 'full'))
    for delta in (0, 1, 2, 3):
        for cont in ('dot', 'dottext'):
            C.append(gen_longline(65536, delta, cont, None, 'lite'))
    return C


# ---------------------------------------------------------------- pipelined groups of exactly k*4096 bytes
def gen_padded(k, d, kind):
    """A session whose whole pipelined byte stream is exactly k*4096+d bytes (padded with NOOP lines / RCPT lines and the
    length of the EHLO name): delivered in one burst every recv(4096) returns a FULL buffer and nothing follows the last."""
    T = 4096 * k + d
    if kind == 'noops':
        tail = b'MAIL FROM:<after0@x.example>\r\nRSET\r\nQUIT\r\n'
        unit, msgs = b'NOOP\r\n', []
        mid = lambda n: unit * n
    else:
        second = b'to the list\r\n'
        tail = b'DATA\r\n' + second + b'.\r\nQUIT\r\n'
        msgs = [dict(k=0, content=second, wire_len=len(second) + 3)]
        mid = lambda n: b'MAIL FROM:<s0@x.example>\r\n' + b''.join(b'RCPT TO:<r0-%03d@x.example>\r\n' % j for j in range(n))
    fixed = len(b'EHLO .example\r\n') + len(tail)
    n = 0
    while fixed + len(mid(n + 1)) + 1 <= T:
        n += 1
    m = T - fixed - len(mid(n))
    stream = b'EHLO ' + b'a' * m + b'.example\r\n' + mid(n) + tail
    assert len(stream) == T and m >= 1, (len(stream), T, m)
    segs = [('lines',), ('whole',), ('cuts', [T // 2]), ('cuts', [T - 1])] + ([('fixed', 1000), ('cuts', [4096])] if k == 1 else [])
    segs = [x for x in segs if x[0] != 'cuts' or 0 < x[1][0] < T]
    return dict(stream=stream, mx=None, vb=KEEP, envs=[], profile='clean', end='quit', roles=[], segs=segs, msgs=msgs,
                gen=dict(kind='padded', k=k, d=d, pad=kind))


def padded_cases():
    return [gen_padded(k, d, kind) for k in (1, 2, 3) for d in (-1, 0, 1) for kind in ('noops', 'rcpts') if k < 3 or (d == 0 and kind == 'noops')]


# ---------------------------------------------------------------- over-long command lines
def gen_longcmd(h, word, segs):
    """EHLO, then ONE command line: h bytes (`word`, a blank, filler) followed by a tail that spells a command
    (`MAIL FROM:<inarg0@x.example>`) - argument text, never a command - then MAIL/RSET/QUIT.
    `cut` = offset directly in front of the tail (segmentation "the h bytes, 1 byte, the rest")."""
    tail = b'MAIL FROM:<inarg0@x.example>'
    head = b'EHLO a.example\r\n'
    fill = h - len(word) - 1
    line = word + b' ' + b'x' * fill + tail
    stream = head + line + b'\r\n' + b'MAIL FROM:<after0@x.example>\r\nRSET\r\nQUIT\r\n'
    cut = len(head) + len(line) - len(tail)
    names = dict(whole=('whole',), lines=('lines',), fixed=('fixed', 4096), cut=('cuts', [cut, cut + 1]))
    return dict(stream=stream, mx=None, vb=KEEP, envs=[], profile='clean', end='quit', roles=[], msgs=[],
                segs=[names[x] for x in segs], gen=dict(kind='longcmd', h=h, word=word.decode('ascii'), segs=list(segs)))


MIB = 1 << 20


def longcmd_cases(quick):
    """(case, number of segmentations also given to the model).  The library rescans the growing buffer after every
    read (line_pattern from offset 0): about 9 s per MiB-long line and run, hence the small numbers."""
    C = [(gen_longcmd(65536 + d, w, ('lines', 'whole', 'cut')), 2) for d in (0, 1) for w in (b'NOOP', b'XYZZY')]
    if quick:
        C.append((gen_longcmd(MIB + 1, b'NOOP', ('cut',)), 0))
        return C
    for d in (-1, 0, 1):
        C.append((gen_longcmd(MIB + d, b'NOOP', ('cut',)), 0))
    C.append((gen_longcmd(MIB + 1, b'NOOP', ('whole', 'cut')), 0))
    C.append((gen_longcmd(2 * MIB, b'NOOP', ('whole',)), 0))
    return C


# ---------------------------------------------------------------- STARTTLS that leaves the session in clear text
def gen_starttls(rng, variant):
    """EHLO .. STARTTLS .. and a whole transaction + QUIT pipelined behind it.  Only a STARTTLS answered 220 may
    discard what follows (C08; here its handshake fails and the session ends); in every other arm the session
    goes on in clear text and everything behind the STARTTLS line must be executed, however it is cut."""
    eol = b'\r\n'
    ctx_on, vt, line, greet, first = True, KEEP, b'STARTTLS', b'EHLO a.example', False
    if variant == 'refused':
        vt = rng.choice([454, 454, 501, 550, 450, 502])
    elif variant == 'refused-close':
        vt = rng.choice([421, 221])
    elif variant == 'hook-raises':
        vt = RAISE
    elif variant == 'argument':
        line = rng.choice([b'STARTTLS now', b'starttls  x'])
        ctx_on = rng.random() < 0.7
    elif variant == 'before-ehlo':
        first = True
    elif variant == 'not-offered':
        ctx_on = False
    elif variant == 'after-helo':
        greet = b'HELO a.example'
    elif variant == 'accepted':
        pass
    line = rng.choice([line, line.lower(), line + b' ']) if variant not in ('argument',) else line
    pre = []
    if rng.random() < 0.4 and not first:
        pre = [b'MAIL FROM:<after9@x.example>', b'RSET']
    body = b''.join(_fmt(rng.choice(BODY_TEXT + BODY_CMD), 0) + eol for _ in range(rng.choice([0, 1, 3])))
    lines = ([line, greet] if first else [greet] + pre + [line])
    head = b''.join(l + eol for l in lines)
    rest = tx(body, k=0) + b'MAIL FROM:<after0@x.example>' + eol + b'RSET' + eol + rng.choice([b'QUIT' + eol, b''])
    stream = head + rest
    p = len(b''.join(l + eol for l in lines[:lines.index(line) + 1]))        # end of the STARTTLS line
    extra = [[p], [p + 4], [p + 11], [p - len(line) - 2, p + 4], [p - 1], [p - 2]]
    extra = [[c for c in cs if 0 < c < len(stream)] for cs in extra]
    nlines = stream.count(b'\n') + 1
    return dict(stream=stream, mx=rng.choice([None, 100000, len(body) + 3, max(1, len(body) + 2)]), vb=KEEP, envs=[env(vt=vt) for _ in range(nlines)],
                profile='clean', end='quit' if stream.endswith(b'QUIT' + eol) else 'eof', roles=[], ctx=ctx_on, vt=vt, variant=variant,
                extra_cuts=[cs for cs in extra if cs],
                msgs=[dict(k=0, content=b''.join(undot(l) for l in re.findall(br'[^\n]*\n', body)), wire_len=len(body) + 3)])


STARTTLS_VARIANTS = ['refused', 'refused', 'refused', 'refused-close', 'hook-raises', 'argument', 'before-ehlo', 'not-offered', 'after-helo', 'accepted']


# ---------------------------------------------------------------- run
def run(ctx):
    ctx.extra['rule'] = (
        'session streams = EHLO + 1-3 transactions (MAIL, 0-2 RCPT, DATA, body, end-of-data line, then MAIL+RSET / NOOP / nothing) + QUIT or end of file; '
        'bodies: empty, text, command-looking lines (QUIT, RSET, MAIL FROM:<inbody..>, DATA, EHLO ..), dot lines ("..", "..x", ".x", ". x"), CRLF and bare LF, '
        'end-of-data variants (".CRLF", ".LF", ". CRLF", ".TAB LF"); SIZE limit none / tiny / huge / within -3..+4 bytes of a message size; profiles: clean '
        '(all verdicts keep: expected behaviour known), verdicts (random per-line application decisions incl. 421/raise/queue errors), adversarial (garbage and '
        'fatal lines, DATA refused and followed by a body, stream truncated anywhere); every stream x segmentations {one burst, per line, per byte, 3 random cuts, '
        'cut at EVERY position when the stream is <= 60 bytes, else 2 cuts near a line end}; compared across segmentations: exact bytes written, callback trace '
        'with arguments and message content, how the session ended; compared with the model per command line: reply codes, callbacks, end. '
        'Long lines: a body with ONE line of L-d bytes (L in 4096, 8192, 65536; d in -2..3) ending in "." or ".text", pipelined RSET/second message/QUIT '
        'behind it, SIZE none/3000, read line by line (reference), in one burst, in 1000/4095/4096/4097-byte reads, bytewise (L <= 8192) and cut in two at every '
        'offset within 3 bytes of each 4096*k mark (counted from the line start and from the stream start) and directly before/after the dots. '
        'Pipelined groups padded to exactly k*4096+d bytes (k 1..3, d -1..1; NOOPs or a mailing-list run of RCPTs, EHLO name as filler) in one burst, 1000-byte reads, '
        'cuts; after the last scripted byte a further recv() while io.recv_buffer holds a complete line is flagged (a waiting client would deadlock). '
        'Over-long command lines (64 KiB, 64 KiB+1 as NOOP/unknown word; 1 MiB+1 in quick, 1 MiB-1/0/+1 and 2 MiB in thorough) whose tail spells MAIL FROM:<inarg..>, '
        'cut directly in front of that tail ("L bytes, 1 byte, rest"), one burst, line by line. '
        'STARTTLS without handshake: refused by a handlers.STARTTLS hook (454/501/550/450/502, 421/221, raising), with an argument, before EHLO, not offered, '
        'after HELO, and accepted-with-failing-handshake, each with a transaction + MAIL/RSET + QUIT pipelined behind it, extra cuts right after / inside the '
        'bytes that follow the STARTTLS line. '
        'Consumers on their own: IO.recv_line (random) and DataReader(io, max_size).recv() (exhaustive over {".",CR,LF,"a"} to the stated length x limits x every '
        'cut; random) incl. exactly which socket pieces were consumed. non-trivial = a stream whose session transferred a message or got an error reply')
    ctx.extra['trusted_base'] = [
        'fake socket (scripted recv() results then b\'\'), PtrLookup stub, recorder queue, scripted validators and the recording SmtpSession subclass of props/c07.py; '
        'slimta.edge.smtp.Server replaced by a subclass that wraps io.recv_command to count the command lines read (attribution of replies/decisions to lines)',
        'model abstractions of coq/model/Server.v (reply texts not modelled: codes only; str as UTF-8 bytes) - the exact reply BYTES are compared across segmentations by the oracle, not with the model',
    ]
    rng = ctx.rng
    quick = ctx.quick
    # 1. corpus
    for case in corpus():
        check_stream(ctx, case, 'corpus', nrandom=4)
    # 2. every cut position of short sessions
    for case in short_sessions():
        check_stream(ctx, case, 'short-every-cut')
    ctx.extra['exhaustive'] = True
    # 2b. one long line around the 4096 / 8192 / 65536 byte marks, cut at and around the marks and the dots
    ll = longline_cases(quick)
    for case in ll:
        check_stream(ctx, case, 'long-line', model_all=(2 if len(case['stream']) > 20000 else 4))
    # 2d. pipelined groups of exactly k*4096 (+-1) bytes; over-long command lines whose tail spells a command
    pc = padded_cases()
    for case in pc:
        check_stream(ctx, case, 'padded-to-4096k', model_all=2)
    lc = longcmd_cases(quick)
    for case, nmodel in lc:
        check_stream(ctx, case, 'long-command-line', model_all=nmodel)
    # 2c. STARTTLS that does not lead to a handshake: refused by the hook, argument, before EHLO, not offered
    nst = 0
    for rnd in range(3 if quick else 40):
        for variant in STARTTLS_VARIANTS:
            check_stream(ctx, gen_starttls(rng, variant), 'starttls-' + variant, nrandom=2)
            nst += 1
    # 3. generated sessions
    plan = [('clean', 420 if quick else 4000), ('verdicts', 300 if quick else 3000), ('adversarial', 380 if quick else 4000)]
    for profile, n in plan:
        for _ in range(n):
            case = gen_session(rng, profile)
            r = check_stream(ctx, case, profile, nrandom=3 if quick else 5)
            ctx.sample(dict(profile=profile, max_size=case['mx'], stream=case['stream'][:300], replies=[list(o[0]) for o in r['outs']],
                            fin=FIN_NAMES[r['fin']]), cap=6)
    # 4. the consumers on their own
    nbody = reader_exhaustive(ctx, 4 if quick else 6)
    reader_random(ctx, 1200 if quick else 12000)
    run_recv_line(ctx, 4000 if quick else 60000)
    ctx.extra['exhaustive_bound'] = (
        'every cut position of %d session streams of <= 60 bytes (x SIZE limits at/around the message size); DataReader.recv(): every body over '
        '{".",CR,LF,"a"} to length %d (%d bodies) alone and followed by ".CRLF Q CRLF", x limits {none,1,3,size-1,size,size+1}, whole / fully buffered / '
        'bytewise / every single cut' % (len(short_sessions()), 4 if quick else 6, nbody))
    ctx.dist['long-line-streams'] = len(ll)
    ctx.dist['padded-streams'] = len(pc)
    ctx.dist['long-command-line-streams'] = len(lc)
    ctx.note('IO.recv_line rescans the whole growing buffer after every read (line_pattern from offset 0): an LF-free command line of 1 MiB costs ~9 s of CPU '
             '(not judged; bounded only by command_timeout)')
    ctx.dist['starttls-streams'] = nst
    ctx.note('a STARTTLS answered 220 discards io.recv_buffer before the handshake (RFC 3207; property C08): the one intended dependence on segmentation; '
             'here its handshake always fails and the session ends, every other STARTTLS arm must leave the stream alone')
    ctx.note('size of a message for the SIZE limit (after fix d13): number of bytes up to and including its end-of-data line, wherever they were buffered')
    ctx.note('HELO after EHLO wipes the SIZE extension (Extensions.reset()): the limit is no longer enforced in that session (noted by C07; consistent across segmentations)')


def replay(ctx, case):
    """./check C09 --replay replays/C09/<n>.json : re-runs the failing input on the implementation (and the model)"""
    c = case.get('case', case)

    def un(x):
        return bytes.fromhex(x['hex']) if isinstance(x, dict) and 'hex' in x else x
    if c.get('reader'):
        for key in ('', 'other'):
            cc = c if not key else c.get('other')
            if not cc:
                continue
            buf, chunks = un(cc['recv_buffer']), [un(x) for x in cc['chunks']]
            print('DataReader(io, %r).recv()  recv_buffer=%r chunks=%r' % (cc['max_size'], buf, chunks))
            print('  implementation: %r' % (impl_reader(cc['max_size'], buf, chunks),))
            if ctx.model:
                print('  model (D13 repaired): %r' % (canon_prim(ctx.model.call('c09_recv', [[cc['max_size']] if cc['max_size'] is not None else [], buf, chunks])),))
        return 0
    if c.get('recv_line'):
        if c.get('gen'):
            g = c['gen']
            s, buf, chunks = recv_line_4096(g['k'], g['d'], g['first'], g['pre'])
            print('stream: a line of %d bytes, then a line ending exactly at byte %d*4096%+d; %d bytes already buffered' % (g['first'], g['k'], g['d'], g['pre']))
        else:
            buf, chunks = un(c['recv_buffer']), [un(x) for x in c['chunks']]
        out = impl_recv_line(buf, chunks)
        print('IO.recv_line recv_buffer=%r, recv() results of %r bytes -> %r' % (short(buf, 60), [len(x) for x in chunks],
                                                                                tuple(short(x, 60) if isinstance(x, bytes) else x for x in out)))
        return 0
    envs = [dict(v1=e[0], v2=e[1], v3=e[2], q=e[3], qkind='queue', vt=(e[4] if len(e) > 4 else KEEP), tls=0) for e in c.get('envs', [])]
    if c.get('gen'):
        g = c['gen']
        if g['kind'] == 'padded':
            stream = gen_padded(g['k'], g['d'], g['pad'])['stream']
            print('generated stream: a pipelined session of exactly %d*4096%+d bytes (%s as padding)' % (g['k'], g['d'], g['pad']))
        elif g['kind'] == 'longcmd':
            stream = gen_longcmd(g['h'], g['word'].encode('ascii'), g['segs'])['stream']
            print('generated stream: EHLO, one %s line of %d bytes followed (same line) by the text "MAIL FROM:<inarg0@x.example>", then MAIL/RSET/QUIT' % (g['word'], g['h']))
        else:
            stream = gen_longline(g['L'], g['delta'], g['cont'], g['max_size'])['stream']
        if g['kind'] == 'longline':
            print('generated stream: one body line of %d bytes of "X" (L=%d, delta=%d) ending in %s, then RSET / second message / QUIT' % (
            g['L'] - g['delta'], g['L'], g['delta'], '".CRLF"' if g['cont'] == 'dot' else '".text...CRLF"'))
    else:
        stream = un(c['stream'])
    kc = dict(mx=c['max_size'], vb=c.get('banner_verdict', KEEP), envs=envs, ctx=bool(c.get('context')))
    print('client stream (%d bytes), SIZE limit %r, STARTTLS %s:\n  %r' % (len(stream), c['max_size'], 'offered' if kc['ctx'] else 'not offered', short(stream, 700)))
    for key in ('segmentation', 'other_segmentation'):
        if key not in c:
            continue
        spec = tuple(c[key])
        chunks = build_chunks(stream, spec)
        r = run_impl(kc['mx'], kc['vb'], kc['envs'], chunks, kc['ctx'])
        print('%s [%s]: %d recv() results of %s bytes' % (key, seg_name(spec), len(chunks), sorted(set(len(x) for x in chunks))[-4:]))
        print('  replies      : %r' % ([list(o[0]) for o in r['outs']],))
        print('  server wrote : %r' % short(r['sent'], 900))
        print('  callbacks    : %r' % ([tuple(short(x, 80) if isinstance(x, bytes) else x for x in e) for e in r['trace']],))
        print('  session ended: %s' % FIN_NAMES[r['fin']])
        if r.get('held'):
            print('  READ PAST THE END OF THE SCRIPT while io.recv_buffer held %d bytes / %d complete lines: %r...' % r['held'])
        if ctx.model and len(stream) < 300000:
            m = canon_model(ctx.model.call('c09_run', model_inputs(kc, chunks)))
            print('  model        : replies %r, %s' % ([list(o[0]) for o in m['outs']], FIN_NAMES[m['fin']]))
    return 0
