"""C07 - the SMTP server enforces command order and resets transaction state.

Correspondence of coq/model/Server.v with the real slimta.smtp.server.Server driven
through the real slimta.edge.smtp.SmtpEdge.handle / SmtpSession (scripted validator
class, recorder queue) over an in-memory socket, one greenlet per session; plus the
property oracle evaluated directly on what the implementation did.

Out of scope here (C08/C09/C05): real TLS handshakes (a fake context swaps the socket
object), the SASL exchanges themselves (only refused/accepted sequencing with PLAIN/LOGIN,
including the clear-text gate: 504 unless the session is encrypted),
byte-stream segmentation (every recv() returns one whole command line, one whole message
body, or one whole AUTH answer), empty message bodies and bodies with dot lines."""
import re, itertools, logging, base64

import gevent
from gevent.ssl import SSLError

import slimta.edge.smtp as edge_mod
import slimta.smtp.io as io_mod
from slimta.edge.smtp import SmtpEdge, SmtpSession
from slimta.smtp.server import Server
from slimta.smtp.reply import Reply
from slimta.queue import QueueError
from slimta.relay import PermanentRelayError, TransientRelayError

from vp.core import B, jsonable

ASSUMPTIONS = [
    'command level: the client writes one complete line per recv() and waits for the reply (no pipelining, C09)',
    'message bodies are non-empty, contain no line starting with a dot and arrive in one piece (DATA framing is C05/C09)',
    'validators decide by leaving the reply, setting a three digit 4xx/5xx/221/421 code, or raising',
    'TLS handshake = fake context swapping the socket object (real TLS is C08); AUTH only PLAIN/LOGIN sequencing',
    'handlers object is slimta.edge.smtp.SmtpSession (no NOOP/QUIT/CLOSE/STARTTLS/custom-command handlers)',
    'pysasl.SASLAuth.defaults() memoised by the harness (static mechanism table; speed only)',
]

# pysasl's SASLAuth.defaults() rescans every installed distribution's entry points on each call
# (13 ms per Server()); the mechanism table is static, so it is looked up once.
import pysasl
_sasl_defaults = pysasl.SASLAuth.defaults
_sasl_cache = []


def _cached_defaults(cls):
    if not _sasl_cache:
        _sasl_cache.append(_sasl_defaults())
    return _sasl_cache[0]


pysasl.SASLAuth.defaults = classmethod(_cached_defaults)

logging.getLogger('slimta').addHandler(logging.NullHandler())
logging.getLogger('slimta').propagate = False

KEEP, RAISE, TIMEOUT, KILL = 0, 1, 2, 3     # verdicts below 100; RAISE: an Exception subclass,
                                            # TIMEOUT: gevent.Timeout (BaseException), KILL: GreenletExit
K_BANNER, K_EHLO, K_HELO, K_AUTH, K_RSET, K_MAIL, K_RCPT, K_DATA, K_HAVE = range(9)
KNAMES = ['BANNER_', 'EHLO', 'HELO', 'AUTH', 'RSET', 'MAIL', 'RCPT', 'DATA', 'HAVE_DATA']
BASE_EXTS = {'8BITMIME', 'PIPELINING', 'ENHANCEDSTATUSCODES', 'SMTPUTF8'}
CONT, CLOSED, CRASHED = 0, 1, 2


# ---------------------------------------------------------------- items
def short(x):
    """for messages, samples and mismatch dumps: long byte strings by length, head and tail"""
    if isinstance(x, (bytes, bytearray)):
        return bytes(x) if len(x) <= 120 else '<%d bytes: %r ... %r>' % (len(x), bytes(x[:24]), bytes(x[-24:]))
    if isinstance(x, dict):
        return {k: short(v) for k, v in x.items()}
    if isinstance(x, (list, tuple)):
        return type(x)(short(v) for v in x)
    return x


def long_item(prefix, n, suffix=b'', fill=b'x', **kw):
    """a command line with an n byte filler; replays store (prefix, n, suffix, fill), not the line"""
    it = item(prefix + fill * n + suffix, name='%s<%d x %s>%s' % (prefix.decode('latin1'), n, fill.decode('latin1'), suffix.decode('latin1')), **kw)
    it['gen'] = [prefix, n, suffix, fill]
    return it


def compact(items):
    return [{k: v for k, v in it.items() if k != 'line'} if 'gen' in it else it for it in items]


def expand(items):
    for it in items:
        if 'gen' in it and 'line' not in it:
            p, n, sfx, fill = it['gen']
            it['line'] = p + fill * n + sfx
    return items


def item(line, v1=KEEP, v2=KEEP, v3=KEEP, data=b'', big=False, q=0, qkind='queue', resps=(), au=(4,), tls=1, name=None):
    return dict(line=line, v1=v1, v2=v2, v3=v3, data=data, big=big, q=q, qkind=qkind,
                resps=list(resps), au=list(au), tls=tls, name=name or line.decode('latin1'))


def wire_of(it):
    return it['data'] + b'.\r\n'


def enc_item(it):
    return [it['line'], it['v1'], it['v2'], it['v3'], it['data'], len(wire_of(it)), it['q'],
            list(it['resps']), list(it['au']), it['tls']]


def enc_cfg(cfg):
    return [cfg['context'], cfg['imm'], cfg['imm_ok'], cfg['auth'], [cfg['size']] if cfg['size'] is not None else []]


# ---------------------------------------------------------------- the implementation under a scripted client
class Script(object):
    """The client: hands out the next line / body / AUTH answer when the server
    reads, attributes everything the server wrote since the previous read to the
    command that was outstanding."""

    def __init__(self, cfg, vb, items, deliver='recv'):
        self.cfg, self.vb, self.items = cfg, vb, items
        self.deliver = deliver
        self.pending = b''
        self.cur = -1                      # -1: connection / banner
        self.sent = b''
        self.mark = 0
        self.replies = {-1: []}
        self.events = {-1: []}
        self.states = {}
        self.body_sent = False
        self.resp_i = 0
        self.eof = False
        self.server = None
        self.session = None
        self.protocol_error = None

    # --- verdicts
    def verdict(self, slot):
        if self.cur < 0:
            return self.vb if slot == 'v1' else KEEP
        return self.items[self.cur][slot]

    def ev(self, e):
        self.events.setdefault(self.cur, []).append(e)

    def collect(self):
        new = self.sent[self.mark:]
        self.mark = len(self.sent)
        for ln in new.split(b'\r\n'):
            if not ln:
                continue
            m = re.match(br'^(\d\d\d)([ -])', ln)
            if not m:
                self.protocol_error = 'unparsable reply line %r' % ln
                continue
            if m.group(2) == b' ':
                self.replies.setdefault(self.cur, []).append(int(m.group(1)))

    def next_chunk(self):
        self.collect()
        if self.cur >= 0:
            it = self.items[self.cur]
            last = self.replies[self.cur][-1] if self.replies.get(self.cur) else None
            word = it['line'].split(None, 1)[0].upper() if it['line'].split() else b''
            if word == b'DATA' and last == 354 and not self.body_sent:
                self.body_sent = True
                return wire_of(it)
            if word == b'AUTH' and last == 334 and self.resp_i < len(it['resps']):
                self.resp_i += 1
                return it['resps'][self.resp_i - 1] + b'\r\n'
        # the outstanding command is finished: snapshot, go on
        self.states[self.cur] = snapshot(self)
        self.cur += 1
        self.body_sent = False
        self.resp_i = 0
        if self.cur >= len(self.items):
            self.eof = True
            self.cur -= 1
            return b''
        self.replies.setdefault(self.cur, [])
        self.events.setdefault(self.cur, [])
        return self.items[self.cur]['line'] + b'\r\n'


class FakeSocket(object):
    """recv(n): what the client wrote next, at most n bytes of it at a time when the session's
    delivery mode is 'recv' (default, like a real socket), at most 1460 bytes in mode 'mss', all of
    it in one piece in mode 'whole'"""

    def __init__(self, script):
        self.script = script

    def fileno(self):
        return -1

    def getpeername(self):
        return ('192.0.2.1', 4321)

    def getsockname(self):
        return ('192.0.2.2', 25)

    def recv(self, n=4096):
        gevent.sleep(0)          # a read is a yield point
        s = self.script
        if s.pending:
            lim = n if s.deliver == 'recv' else 1460
            piece, s.pending = s.pending[:lim], s.pending[lim:]
            return piece
        chunk = s.next_chunk()
        lim = {'recv': n, 'mss': min(n, 1460)}.get(s.deliver)
        if lim and len(chunk) > lim:
            chunk, s.pending = chunk[:lim], chunk[lim:]
        return chunk

    def sendall(self, data):
        self.script.sent += bytes(data)

    def send(self, data):
        self.script.sent += bytes(data)
        return len(data)

    def close(self):
        pass


class FakeTLSSocket(FakeSocket):
    """what FakeContext.wrap_socket returns; slimta.smtp.io.SSLSocket is pointed at this
    class so that IO.encrypted is true afterwards"""

    def unwrap(self):
        return None


class FakeContext(object):
    def __init__(self, script):
        self.script = script

    def session_stats(self):           # read by slimta.logging.socket.encrypt
        return {}

    def wrap_socket(self, sock, server_side=False, **kw):
        s = self.script
        ok = s.cfg['imm_ok'] if s.cur < 0 else s.items[s.cur]['tls']
        if not ok:
            raise SSLError('scripted handshake failure')
        return FakeTLSSocket(s)


class FakePtr(object):
    def __init__(self, ip):
        pass

    def start(self):
        pass

    def finish(self, runtime=None):
        return None


CURRENT = {}


class RecServer(Server):
    def __init__(self, *a, **kw):
        super(RecServer, self).__init__(*a, **kw)
        CURRENT['script'].server = self


def _params(ps):
    return tuple((bytes(k), None if v is True else bytes(v)) for k, v in ps.items())


def _wrap(name, kid, argf):
    orig = getattr(SmtpSession, name)

    def f(self, reply, *a):
        s = self._script
        try:
            arg, ps = argf(*a)
        except Exception:        # called with arguments no protocol path gives it (e.g. as a "custom command")
            arg, ps = repr(a)[:80].encode('latin1', 'replace'), ()
        try:
            orig(self, reply, *a)
        except BaseException:
            s.ev(('call', kid, arg, ps, None))
            raise
        s.ev(('call', kid, arg, ps, int(reply.code)))
    f.__name__ = name
    return f


class TraceSession(SmtpSession):
    """the real SmtpSession; every handler the Server can call is wrapped to record
    (handler, arguments, reply code when it returns | raised).  No handler is added."""

    def __init__(self, address, validator_class, handoff):
        self._script = CURRENT['script']
        self._script.session = self
        super(TraceSession, self).__init__(address, validator_class, handoff)

    BANNER_ = _wrap('BANNER_', K_BANNER, lambda: (b'', ()))
    EHLO = _wrap('EHLO', K_EHLO, lambda a: (a.encode('utf-8'), ()))
    HELO = _wrap('HELO', K_HELO, lambda a: (a.encode('utf-8'), ()))
    AUTH = _wrap('AUTH', K_AUTH, lambda c: (c.authcid.encode('utf-8'), ()))
    RSET = _wrap('RSET', K_RSET, lambda: (b'', ()))
    MAIL = _wrap('MAIL', K_MAIL, lambda a, p: (a.encode('utf-8'), _params(p)))
    RCPT = _wrap('RCPT', K_RCPT, lambda a, p: (a.encode('utf-8'), _params(p)))
    DATA = _wrap('DATA', K_DATA, lambda: (b'', ()))
    HAVE_DATA = _wrap('HAVE_DATA', K_HAVE, lambda d, e: (d or b'', ()))

    def TLSHANDSHAKE2(self, ssl_socket):
        SmtpSession.TLSHANDSHAKE2(self, ssl_socket)
        self._script.ev(('tls',))


class Scripted(Exception):
    pass


class Validators(object):
    def __init__(self, session):
        self.session = session
        self.script = CURRENT['script']

    def _v(self, reply, slot):
        v = self.script.verdict(slot)
        if v == RAISE:
            raise Scripted('validator raises')
        if v == TIMEOUT:          # what `with gevent.Timeout(5): lookup()` leaks when the lookup is too slow
            raise gevent.Timeout(0.01)
        if v == KILL:
            raise gevent.GreenletExit()
        if v != KEEP:
            reply.code = str(v)
            reply.message = 'scripted verdict'

    def handle_banner(self, reply, address):
        self._v(reply, 'v1')

    def handle_ehlo(self, reply, ehlo_as):
        self._v(reply, 'v1')

    def handle_helo(self, reply, helo_as):
        self._v(reply, 'v1')

    def handle_auth(self, reply, creds):
        self._v(reply, 'v1')

    def handle_mail(self, reply, sender, params):
        self._v(reply, 'v1')

    def handle_rcpt(self, reply, rcpt, params):
        self._v(reply, 'v1')

    def handle_data(self, reply):
        self._v(reply, 'v1')

    def handle_have_data(self, reply, data):
        self._v(reply, 'v2')

    def handle_queued(self, reply, results):
        self._v(reply, 'v3')

    def handle_rset(self, reply):           # documented, but SmtpSession.RSET never calls it
        self.script.ev(('rset-validator',))


class RecorderQueue(object):
    def __init__(self, script):
        self.script = script

    def enqueue(self, envelope):
        s = self.script
        s.ev(('queue', envelope.sender.encode('utf-8'), tuple(r.encode('utf-8') for r in envelope.recipients)))
        it = s.items[s.cur]
        if it['q'] == 0:
            return [(envelope, 'id-%d' % s.cur)]
        if it['qkind'] == 'default':            # QueueError without a reply attribute -> 451
            return [(envelope, QueueError())]
        r = Reply(str(it['q']), 'scripted queue result')
        if it['qkind'] == 'relay':
            cls = PermanentRelayError if str(it['q'])[0] == '5' else TransientRelayError
            return [(envelope, cls('scripted', r))]
        e = QueueError()
        e.reply = r
        return [(envelope, e)]


def snapshot(script):
    sv, se = script.server, script.session
    if sv is None or se is None:
        return None
    keys = set(sv.extensions.extensions.keys())
    base = True if BASE_EXTS <= keys else (False if not (BASE_EXTS & keys) else 'partial')
    extra = keys - BASE_EXTS - {'STARTTLS', 'AUTH', 'SIZE'}
    size = sv.extensions.getparam('SIZE', filter=int) if 'SIZE' in keys else None
    env = None
    if se.envelope is not None:
        env = ((se.envelope.sender or '').encode('utf-8'), tuple(r.encode('utf-8') for r in se.envelope.recipients))
    st = (int(bool(sv.bannered)), sv.ehlo_as.encode('utf-8') if sv.ehlo_as else None,
          int(bool(sv.have_mailfrom)), int(bool(sv.have_rcptto)), int(bool(sv.authed)), int(bool(sv.encrypted)),
          base if base == 'partial' else int(base), int('STARTTLS' in keys), int('AUTH' in keys), size,
          env, se.ehlo_as.encode('utf-8') if se.ehlo_as else None,
          se.auth[0].encode('utf-8') if se.auth else None, int(bool(se.extended_smtp)), int(se.security == 'TLS'))
    if extra:
        st = st + (tuple(sorted(extra)),)
    return st


def run_impl(cfg, vb, items, deliver='recv'):
    """returns dict(outs=[(replies, events, fin)], state, fin, states=[per item state])"""
    script = Script(cfg, vb, items, deliver)
    CURRENT['script'] = script
    edge = SmtpEdge(None, RecorderQueue(script), max_size=cfg['size'], validator_class=Validators,
                    auth=bool(cfg['auth']), context=FakeContext(script) if cfg['context'] else None,
                    tls_immediately=bool(cfg['imm']), hostname='verif.example', session_class=TraceSession)
    sock = FakeSocket(script)
    box = {}

    def session():
        try:
            edge.handle(sock, ('192.0.2.1', 4321))
            box['exc'] = None
        except BaseException as e:      # what would kill the connection's greenlet
            box['exc'] = e
        box['final'] = snapshot(script)

    old = (edge_mod.Server, edge_mod.PtrLookup, io_mod.SSLSocket)
    edge_mod.Server, edge_mod.PtrLookup, io_mod.SSLSocket = RecServer, FakePtr, FakeTLSSocket
    try:
        g = gevent.spawn(session)
        g.join()
    finally:
        edge_mod.Server, edge_mod.PtrLookup, io_mod.SSLSocket = old
    script.collect()
    if script.eof:
        fin = CONT
    else:
        fin = CRASHED if box.get('exc') is not None else CLOSED
        script.states[script.cur] = box.get('final')
    n = script.cur
    outs = []
    for i in range(-1, n + 1):
        outs.append((tuple(script.replies.get(i, [])), tuple(script.events.get(i, [])), CONT if i < n else fin))
    return dict(outs=outs, state=script.states.get(n), fin=fin,
                states=[script.states.get(i) for i in range(-1, n + 1)],
                exc=type(box.get('exc')).__name__ if box.get('exc') is not None else None,
                protocol_error=script.protocol_error, transcript=script.sent)


# ---------------------------------------------------------------- model side
def _optb(v):
    return B(v[0]) if v else None


def canon_model(o):
    outs = []
    for (reps, evs, fin) in o[0]:
        es = []
        for e in evs:
            if e[0] == 0:
                ps = tuple((B(k), _optb(v)) for (k, v) in e[3])
                es.append(('call', e[1], B(e[2]), ps, e[4][0] if e[4] else None))
            elif e[0] == 1:
                es.append(('tls',))
            else:
                es.append(('queue', B(e[1]), tuple(B(r) for r in e[2])))
        outs.append((tuple(reps), tuple(es), fin))
    s = o[1]
    env = None
    if s[10]:
        env = (B(s[10][0][0]), tuple(B(r) for r in s[10][0][1]))
    st = (s[0], _optb(s[1]), s[2], s[3], s[4], s[5], s[6], s[7], s[8], s[9][0] if s[9] else None,
          env, _optb(s[11]), _optb(s[12]), s[13], s[14])
    return dict(outs=outs, state=st, fin=o[2], accepted=o[3])


def run_model_batch(ctx, cases):
    outs = ctx.model.batch('c07_run', [[enc_cfg(c['cfg']), c['vb'], [enc_item(i) for i in c['items']]] for c in cases])
    return [canon_model(o) for o in outs]


# ---------------------------------------------------------------- property oracle (independent of the model)
class Aut(object):
    """protocol order: greeting accepted < EHLO/HELO accepted < MAIL accepted < RCPT+ accepted < DATA < content;
    resets; handoff exactly the transaction; nothing after a close code or a raising callback"""

    def __init__(self):
        self.started = self.greeted = self.helo = False
        self.env = None
        self.data = self.queued = self.tls = self.authed = self.dead = False

    def allowed(self, k):
        if self.dead:
            return False
        if k == K_BANNER:
            return not self.started
        if k == K_HAVE:
            return self.data
        if not self.started or self.data:
            return False
        if k in (K_EHLO, K_HELO):
            return self.greeted
        if k == K_MAIL:
            return self.helo and self.env is None
        if k == K_RCPT:
            return self.env is not None
        if k == K_DATA:
            return self.env is not None and len(self.env[1]) > 0
        if k == K_RSET:
            return True
        if k == K_AUTH:
            return self.helo and self.env is None and not self.authed
        return False

    def allowed_tls(self):
        return not self.dead and not self.data and not self.tls and (not self.started or self.helo)

    def step(self, e):
        if e[0] == 'tls':
            if not self.allowed_tls():
                return 'TLS handshake callback not allowed here'
            self.tls, self.helo = True, False
            return None
        if e[0] == 'queue':
            if self.dead or not self.data or self.queued:
                return 'handoff outside the content callback'
            if self.env is None or (e[1], tuple(e[2])) != (self.env[0], tuple(self.env[1])):
                return 'handoff of %r, transaction is %r' % (e[1:], self.env)
            self.queued = True
            return None
        if e[0] != 'call':
            return 'unexpected event %r' % (e,)
        k, arg, code = e[1], e[2], e[4]
        if not self.allowed(k):
            return 'callback %s out of protocol order' % KNAMES[k]
        self.dead = code is None or code in (221, 421)
        if k == K_BANNER:
            self.started, self.greeted = True, code == 220
        elif k in (K_EHLO, K_HELO):
            if code == 250:
                self.helo, self.env = True, None
        elif k == K_MAIL:
            if code == 250:
                self.env = (arg, [])
        elif k == K_RCPT:
            if code == 250:
                self.env = (self.env[0], list(self.env[1]) + [arg])
        elif k == K_DATA:
            self.data, self.queued = code == 354, False
        elif k == K_HAVE:
            self.data, self.queued, self.env = False, False, None
        elif k == K_RSET:
            if code == 250:
                self.env = None
        elif k == K_AUTH:
            self.authed = self.authed or code == 235
        return None


WORD_K = {b'EHLO': K_EHLO, b'HELO': K_HELO, b'MAIL': K_MAIL, b'RCPT': K_RCPT, b'DATA': K_DATA, b'RSET': K_RSET,
          b'AUTH': K_AUTH}
KNOWN = set(WORD_K) | {b'NOOP', b'QUIT', b'STARTTLS'}


def split_line(line):
    """word/argument by the RFC reading: letters, then blanks, then the argument"""
    m = re.match(br'^([A-Za-z]+)(?:[ \t\r\f\v]+(.*?))?[ \t\r\f\v]*$', line, re.S)
    if not m:
        return None, None
    return m.group(1).upper(), (m.group(2) or None)


def valid_utf8(b):
    try:
        b.decode('utf-8')
        return True
    except UnicodeDecodeError:
        return False


def path_of(arg, kw):
    """the <...> of MAIL FROM:/RCPT TO:, quotes respected; None when the syntax is wrong"""
    m = re.match(br'^' + kw + br':[ \t\r\f\v]*<', arg, re.I)
    if not m:
        return None
    i, q = m.end(), False
    while i < len(arg):
        c = arg[i:i + 1]
        if q and c == b'\\':       # quoted-pair
            i += 2
            continue
        if c == b'"':
            q = not q
        elif c == b'>' and not q:
            return arg[m.end():i]
        i += 1
    return None


def malformed(line):
    w, a = split_line(line)
    if w is None or w not in KNOWN:
        return True
    if w in (b'EHLO', b'HELO'):
        return a is None or not valid_utf8(a)
    if w in (b'MAIL', b'RCPT'):
        if a is None:
            return True
        p = path_of(a, b'FROM' if w == b'MAIL' else b'TO')
        if p is None or not valid_utf8(p):
            return True
        if w == b'MAIL' and re.search(br'(?:^|\s)SIZE=[a-zA-Z]+(?:\s|$)', a[a.rfind(b'>') + 1:], re.I):
            return True      # SIZE with a non-numeric value
        return False
    if w in (b'DATA', b'RSET', b'QUIT', b'STARTTLS'):
        return a is not None
    if w == b'AUTH':
        return a is None
    return False


def oracle(ctx, case, impl, report_case=None):
    """the statement of C07 on what the implementation did.  `report_case` is what is written
    into a replay (long lines by their parameters)"""
    items = case['items']
    rc = report_case if report_case is not None else case
    aut = Aut()
    outs = impl['outs']
    stale = False
    if impl['protocol_error']:
        ctx.fail('c07:reply-syntax', rc, short(impl['protocol_error']))
    for idx, (reps, evs, fin) in enumerate(outs):
        i = idx - 1
        it = items[i] if i >= 0 else None
        ln = short(it['line']) if it is not None else None
        last = idx == len(outs) - 1
        before = Aut.__new__(Aut); before.__dict__ = dict(aut.__dict__)
        # 1. callbacks in protocol order
        for e in evs:
            if e[0] == 'rset-validator':
                continue
            why = aut.step(e)
            if why:
                ctx.fail('c07:callback-order', rc, 'command #%d %r: %s (events %r)' % (i, ln, short(why), short(evs)))
                return
        st = impl['states'][idx]
        # a callback of this command raised; which families could it have been
        raised_ev = any(e[0] == 'call' and e[4] is None for e in evs)
        verdicts = [case['vb']] if it is None else [it['v1'], it['v2'], it['v3']]
        killed = raised_ev and KILL in verdicts and last and fin == CRASHED
        unanswered = False
        if raised_ev:
            # whatever a callback raises ends the session; an Exception subclass or a gevent.Timeout is
            # answered with a final 421, only a kill (GreenletExit) goes unanswered
            if not (last and fin != CONT):
                ctx.fail('c07:raising-callback-session-continues', rc, 'command #%d %r: a callback raised, the session went on (replies %r)' % (i, ln, reps))
            elif not killed and not (reps and reps[-1] == 421):
                fam = 'gevent.Timeout' if TIMEOUT in verdicts else 'exception'
                unanswered = True
                ctx.fail('c07:callback-timeout-unanswered' if TIMEOUT in verdicts else 'c07:raising-callback-unanswered', rc,
                         'command #%d %r: its callback raised (%s) and the line got no final 421 reply: replies %r, session ended by %s' % (
                             i, ln, fam, reps, impl['exc'] or 'the server'))
        if it is not None:
            w, a = split_line(it['line'])
            # 2. malformed / out of order => one error reply, no callback
            k = WORD_K.get(w)
            ooo = (k is not None and not before.allowed(k)) or (w == b'STARTTLS' and not before.allowed_tls())
            if malformed(it['line']) or ooo:
                if evs or len(reps) != 1 or not (400 <= reps[0] <= 599):
                    ctx.fail('c07:error-reply-without-callback', rc,
                             'command #%d %r is %s: replies %r events %r' % (
                                 i, ln, 'out of order' if ooo else 'malformed', reps, short(evs)))
            # 4. one final reply (+ intermediates)
            inter, final = reps[:-1], reps[-1:]
            tls_fail = (w == b'STARTTLS' and reps == (220, 421))
            if killed:       # documented exception: no final reply, only the intermediates already written
                inter, final = reps, (421,)
            ok = len(final) == 1 and all(c in (354, 334) for c in inter) and (final[0] not in (354, 334))
            if ok and inter:
                ok = (w == b'DATA' and inter == (354,)) or (w == b'AUTH' and set(inter) == {334} and len(inter) <= len(it['resps']))
            if not ok and not tls_fail and not unanswered:
                key = 'c07:one-final-reply'
                if len(it['line']) > 512 and len(reps) != 1:
                    key = 'c07:long-line-several-replies'
                ctx.fail(key, rc, 'command #%d %r (%d bytes, delivery %s) got replies %r' % (i, ln, len(it['line']), case.get('deliver', 'recv'), reps))
            # 3. transaction forgotten
            accepted_reset = w in (b'RSET', b'EHLO', b'HELO') and reps == (250,)
            message_done = w == b'DATA' and 354 in reps and len(reps) == 2
            if (accepted_reset or message_done) and st is not None and not (last and fin == CRASHED) and not raised_ev:
                if st[2] or st[3]:
                    ctx.fail('c07:server-transaction-survives', rc,
                             'after command #%d %r (replies %r) have_mailfrom/have_rcptto = %r/%r' % (i, ln, reps, st[2], st[3]))
                if st[10] is not None:
                    stale = message_done
                    ctx.fail('c07:edge-envelope-survives-rejected-message' if message_done else 'c07:edge-envelope-survives-reset',
                             rc, 'after command #%d %r (replies %r) SmtpSession.envelope still holds %r' % (i, ln, reps, short(st[10])))
        else:
            if len(reps) != 1 and not (killed and reps == ()) and not unanswered:
                ctx.fail('c07:one-final-reply', rc, 'connection start got replies %r' % (reps,))
        # server and edge views of the transaction agree between commands
        if st is not None and not (last and fin == CRASHED) and not (last and raised_ev):
            if st[10] is None:
                stale = False
            if bool(st[2]) != (st[10] is not None) or bool(st[3]) != (st[10] is not None and len(st[10][1]) > 0):
                if not stale:       # (a stale envelope left by a rejected message is reported once, above)
                    ctx.fail('c07:server-edge-disagree', rc, 'after command #%d: have_mailfrom=%r have_rcptto=%r envelope=%r' % (i, st[2], st[3], short(st[10])))
        # 5. close codes end the session
        for j, c in enumerate(reps):
            if c in (221, 421):
                if not (last and fin != CONT and j == len(reps) - 1):
                    key = 'c07:close-code-session-continues'
                    if it is not None and split_line(it['line'])[0] == b'DATA' and j == len(reps) - 1 and reps[0] == 354:
                        key = 'c07:421-after-data-session-continues'
                    ctx.fail(key, rc, 'reply %d to command #%d %r did not end the session (replies %r, session went on: %s)' % (
                        c, i, ln, reps, 'yes' if not last or fin == CONT else 'no'))
        if last and fin == CLOSED and not (reps and reps[-1] in (221, 421)):
            ctx.fail('c07:closed-without-close-code', rc, 'session closed after replies %r' % (reps,))
        if last and fin == CRASHED and not raised_ev and not (reps and reps[-1] in (501, 421)):
            ctx.fail('c07:session-dropped-without-reply', rc, 'command #%d %r: the session was dropped by %s without an error reply (replies %r)' % (
                i, ln, impl['exc'], reps))


# ---------------------------------------------------------------- alphabet
V = [KEEP, 450, 550, 421, 221, RAISE, TIMEOUT, KILL]
BODY = b'Subject: t\r\n\r\nhello\r\n'
BIGBODY = b'Subject: big\r\n\r\n' + b'x' * 76 + b'\r\n' + b'y' * 76 + b'\r\n'
PLAIN_OK = base64.b64encode(b'\x00user\x00pass')
SIZE = 120


def vname(v):
    return {KEEP: 'keep', RAISE: 'raise', TIMEOUT: 'raise-gevent.Timeout', KILL: 'raise-GreenletExit'}.get(v, str(v))


def alphabet(cfg, reduced=False):
    A = []
    add = A.append
    for v in V:
        add(item(b'EHLO a.example', v1=v, name='EHLO/' + vname(v)))
        add(item(b'HELO a.example', v1=v, name='HELO/' + vname(v)))
        add(item(b'MAIL FROM:<s@x.example>', v1=v, name='MAIL/' + vname(v)))
        add(item(b'RCPT TO:<r@x.example>', v1=v, name='RCPT/' + vname(v)))
        add(item(b'DATA', v1=v, data=BODY, name='DATA/' + vname(v)))
    for v in V[1:]:
        add(item(b'DATA', v2=v, data=BODY, name='DATA/have_data=' + vname(v)))
        add(item(b'DATA', v3=v, data=BODY, name='DATA/queued=' + vname(v)))
    add(item(b'DATA', data=BODY, q=451, qkind='default', name='DATA/queue-error'))
    add(item(b'DATA', data=BODY, q=550, qkind='queue', name='DATA/queue-error-550'))
    add(item(b'DATA', data=BODY, q=421, qkind='relay', name='DATA/relay-error-421'))
    add(item(b'DATA', data=BODY, q=250, qkind='queue', name='DATA/queue-error-carrying-a-250-reply'))
    add(item(b'DATA', data=BODY, q=450, qkind='relay', v3=250, name='DATA/relay-error-450-queued-overrides'))
    add(item(b'DATA', data=BIGBODY, big=True, name='DATA/over-size'))
    add(item(b'DATA now', data=BODY, name='DATA/arg'))
    for l in [b'EHLO', b'HELO', b'EHLO \xff\xfe', b'ehlo   B.example  ', b'MAIL', b'MAIL s@x.example', b'MAIL FROM:<s@x.example',
              b'MAIL FROM:<\xffs>', b'mail from: <"a>b"@x.example> BODY=8BITMIME', b'MAIL FROM:<"a\\">b\\\\"@x.example> X=<"\\>', b'MAIL FROM:<s@x.example> SIZE=10',
              b'MAIL FROM:<s@x.example> SIZE=99999', b'MAIL FROM:<s@x.example> SIZE=abc', b'MAIL FROM:<s@x.example> SIZE',
              b'MAIL FROM:<s@x.example> size=-5 SIZE=1_0', b'RCPT', b'RCPT r@x.example', b'RCPT TO:<r@x.example', b'RCPT TO:<\xc3>',
              b'RCPT TO:<q@x.example> NOTIFY=NEVER', b'RSET', b'RSET x', b'NOOP', b'NOOP x', b'QUIT', b'QUIT x', b'STARTTLS x',
              b'FOO', b'FOO bar', b'', b'123 x', b'MAIL1 FROM:<s@x.example>', b' NOOP', b'HAVE_DATA x', b'CLOSE']:
        add(item(l))
    # the null reverse-path (bounces): a sender that is the empty string is still a sender
    add(item(b'MAIL FROM:<>', name='MAIL-null-sender/keep'))
    add(item(b'MAIL FROM:<>', v1=550, name='MAIL-null-sender/550'))
    add(item(b'MAIL FROM:<> SIZE=10', name='MAIL-null-sender/SIZE'))
    add(item(b'RCPT TO:<>', name='RCPT-null-path/keep'))
    for l in COLLISIONS_CORE:          # unknown verbs spelled like the library's internal callback names
        add(item(l))
    add(item(b'STARTTLS', tls=1, name='STARTTLS/ok'))
    add(item(b'STARTTLS', tls=0, name='STARTTLS/handshake-fails'))
    # au = (5, x): the mechanism is one of slimta.smtp.auth.insecure_mechanisms (PLAIN, LOGIN): 504 on a
    # clear-text session (the model decides that from its own `encrypted` flag), outcome x under TLS
    for v in V:
        add(item(b'AUTH PLAIN ' + PLAIN_OK, v1=v, au=(5, (0, b'user')), name='AUTH-PLAIN-initial/' + vname(v)))
    add(item(b'AUTH PLAIN', resps=[PLAIN_OK], au=(5, (0, b'user')), name='AUTH-PLAIN-challenge'))
    add(item(b'AUTH LOGIN', resps=[base64.b64encode(b'user'), base64.b64encode(b'pass')], au=(5, (0, b'user')), v1=550, name='AUTH-LOGIN/550'))
    add(item(b'AUTH PLAIN', resps=[b'*'], au=(5, (2,)), name='AUTH-canceled'))
    add(item(b'AUTH FOO', au=(3,), name='AUTH-unknown-mechanism'))
    add(item(b'AUTH PLAIN !!!!', au=(5, (1,)), name='AUTH-bad-base64'))
    add(item(b'AUTH', name='AUTH-bare'))
    if reduced:
        keep = {'EHLO/keep', 'EHLO/550', 'HELO/keep', 'MAIL/keep', 'MAIL/550', 'RCPT/keep', 'RCPT/450', 'DATA/keep', 'DATA/have_data=550',
                'DATA/queued=421', 'RSET', 'QUIT', 'STARTTLS/ok', 'AUTH-PLAIN-initial/keep', 'MAIL FROM:<s@x.example> SIZE=99999', 'FOO'}
        A = [a for a in A if a['name'] in keep]
    return A


def internal_names():
    """the names a verb must never reach: every public/handler method of the handlers object and of Server
    that is not itself an SMTP command, plus the `_command_` suffixes that are not commands"""
    names = set(['HAVE_DATA', 'BANNER_', 'TLSHANDSHAKE', 'TLSHANDSHAKE2', 'CLOSE', 'custom'])
    for cls in (SmtpSession, Server):
        for n in dir(cls):
            if n.startswith('__'):
                continue
            if n.startswith('_command_'):
                n = n[len('_command_'):]
            if n.upper().encode() in KNOWN:
                continue
            if callable(getattr(cls, n, None)) or n.isupper():
                names.add(n)
    return sorted(names)


def collision_verbs(names):
    """plausible spellings of those names as a command verb: '_' written as '-', '.', '' or kept, case changes,
    a digit appended, with and without an argument"""
    out = []
    for n in names:
        forms = set()
        for sep in ('-', '_', '.', ''):
            base = n.strip('_').replace('_', sep) + (sep if n.endswith('_') else '')
            if n.startswith('_'):
                base = sep + base
            for f in (base.upper(), base.lower(), base.capitalize()):
                forms.add(f)
        forms.add(n)
        forms.add(n.upper() + '2')
        forms.add(n.upper().replace('_', '-') + '-')
        for f in sorted(forms):
            if f and f.upper().encode() not in KNOWN:
                out.append(f.encode())
                out.append(f.encode() + b' foo')
    seen, uniq = set(), []
    for l in out:
        if l not in seen:
            seen.add(l)
            uniq.append(l)
    return uniq


COLLISIONS_CORE = [b'HAVE-DATA foo', b'HAVE-DATA', b'have-data x', b'HAVE.DATA foo', b'BANNER-', b'BANNER- x', b'banner_', b'BANNER',
                   b'TLSHANDSHAKE', b'TLSHANDSHAKE x', b'TLSHANDSHAKE2', b'CLOSE x', b'custom', b'CUSTOM x', b'-command-custom x', b'HANDOFF x']


def run_collisions(ctx, cfgs):
    """every spelling variant of every internal callback/method name, at a handful of session states of the
    richest configurations: an unknown verb is answered with an error reply and reaches no callback"""
    verbs = collision_verbs(internal_names())
    cases = []
    for cfg in ((cfgs[0],) if ctx.quick else (cfgs[0], cfgs[8])):
        A0 = {a['name']: a for a in alphabet(cfg)}
        prefixes = [(KEEP, []), (550, []), (KEEP, [A0['EHLO/keep']]), (KEEP, [A0['EHLO/keep'], A0['MAIL/keep']]),
                    (KEEP, [A0['EHLO/keep'], A0['MAIL/keep'], A0['RCPT/keep']])]
        if cfg['context'] and not cfg['imm']:
            prefixes.append((KEEP, [A0['EHLO/keep'], A0['STARTTLS/ok']]))
        for vb, pre in prefixes:
            for l in verbs:
                cases.append(dict(cfg=cfg, vb=vb, items=pre + [item(l), A0['NOOP']]))
    check_cases(ctx, cases, 'internal-name-collisions', lambda c, i, m: notes(ctx, c, i))
    ctx.count('collision-verbs', len(verbs))


def configs(ctx):
    C = []
    for context, auth, size in itertools.product([1, 0], [1, 0], [SIZE, None]):
        C.append(dict(context=context, imm=0, imm_ok=1, auth=auth, size=size))
    C.append(dict(context=1, imm=1, imm_ok=1, auth=1, size=SIZE))
    C.append(dict(context=1, imm=1, imm_ok=0, auth=1, size=SIZE))
    C.append(dict(context=0, imm=1, imm_ok=1, auth=0, size=0))
    return C


def abstract(st):
    """finite abstraction of the session state used as BFS key"""
    if st is None:
        return None
    # envelope shape: number of recipients (capped), and whether the sender is the null reverse-path
    env = None if st[10] is None else (min(len(st[10][1]), 2), st[10][0] == b'')
    return (st[0], st[1] is not None, st[2], st[3], st[4], st[5], st[6], st[7], st[8], st[9], env,
            st[11] is not None, st[12] is not None, st[13], st[14]) + tuple(st[15:])


# ---------------------------------------------------------------- running and comparing
def check_cases(ctx, cases, kind, on_result=None):
    models = run_model_batch(ctx, cases)
    for case, mo in zip(cases, models):
        impl = run_impl(case['cfg'], case['vb'], case['items'], case.get('deliver', 'recv'))
        items = case['items']
        nontriv = len(impl['outs']) > 1 and any(len(o[1]) > 0 or (o[0] and o[0][-1] >= 400) for o in impl['outs'][1:])
        ctx.evaluated((kind, repr(case['cfg']), case['vb'], tuple((i['name'], i['line']) for i in items)), nontrivial=nontriv)
        ctx.count('cases:' + kind)
        ctx.count('fin:%s' % ['continue', 'closed', 'crashed'][impl['fin']])
        for o in impl['outs'][1:]:
            for c in o[0]:
                ctx.count('reply:%d' % c)
        case_j = dict(cfg=case['cfg'], vb=case['vb'], items=compact(items), deliver=case.get('deliver', 'recv'))
        if not mo['accepted']:
            ctx.mismatch('model-trace-rejected-by-automaton', case_j, None, short(mo['outs']))
        if impl['outs'] != mo['outs'] or impl['fin'] != mo['fin']:
            ctx.mismatch('replies/callbacks/ended', case_j, dict(outs=short(impl['outs']), fin=impl['fin'], exc=impl['exc']),
                         dict(outs=short(mo['outs']), fin=mo['fin']))
        elif impl['state'] != mo['state']:
            ctx.mismatch('state', case_j, short(impl['state']), short(mo['state']))
        oracle(ctx, dict(case_j, items=items), impl, report_case=case_j)
        if on_result:
            on_result(case, impl, mo)
        ctx.sample(dict(kind=kind, cfg=case['cfg'], vb=case['vb'], lines=[short(i['line']) for i in items],
                        replies=[list(o[0]) for o in impl['outs']], fin=impl['fin']), cap=5)
    return models


def notes(ctx, case, impl):
    lines = [i['line'] for i in case['items']]
    for idx, (reps, evs, fin) in enumerate(impl['outs'][1:]):
        l = lines[idx]
        if fin == CRASHED and reps and reps[-1] == 501:
            ctx.note('a command argument that is not UTF-8 (e.g. "EHLO \\xff\\xfe", "MAIL FROM:<\\xff>") is answered 501 and then the '
                     'connection is dropped by the escaping UnicodeDecodeError (no 421); does not contradict the statement')
        if fin == CRASHED and l.strip().upper() in (b'MAIL', b'RCPT'):
            ctx.note('a bare "MAIL"/"RCPT" line (no argument) makes re.match(None) raise TypeError: 421 "Unhandled system error" and the session ends; '
                     'an error reply without callback, as the statement asks, but a syntax error kills the connection')
        if fin == CRASHED and impl['exc'] == 'GreenletExit':
            ctx.note('a callback killed by GreenletExit (raise family KILL; the way gevent kills a greenlet): no reply is written and the session ends '
                     '(model: VRaise FKill, the one documented exception of C07_one_reply_per_command); a gevent.Timeout leaking out of a callback is answered '
                     '"421 4.4.2" and the session is closed (ConnectionLost); an Exception subclass "421 4.3.0"')
    st_hist = impl['states']
    for idx in range(1, len(st_hist)):
        a, b = st_hist[idx - 1], st_hist[idx]
        if a and b and lines[idx - 1].upper().startswith(b'HELO') and a[9] is not None and b[9] is None and b[6] == 0:
            ctx.note('an accepted HELO (after EHLO) wipes ALL extensions for the rest of the session (Extensions.reset()): '
                     'SIZE limit no longer enforced, AUTH/STARTTLS become unknown commands; does not contradict the statement')
    for (reps, evs, fin) in impl['outs']:
        if ('rset-validator',) in evs:
            ctx.note('handle_rset validator was called')
    if any(l.upper().startswith(b'RSET') for l in lines):
        ctx.note('SmtpValidators documents handle_rset(reply) but SmtpSession.RSET never calls it: an application cannot veto RSET (reported, not judged)')


def bfs(ctx, cfg, alpha, budget=None):
    """every abstract state reachable on the implementation, each reached by the first
    (shortest) command prefix found, then every symbol of the alphabet issued there"""
    seen = {}
    frontier = []
    trans = 0
    roots = [dict(cfg=cfg, vb=v, items=[]) for v in V]

    def visit(case, impl, mo):
        notes(ctx, case, impl)
        if impl['fin'] == CONT:
            k = (abstract(impl['state']), )
            if k not in seen:
                seen[k] = case
                frontier.append(case)
    check_cases(ctx, roots, 'bfs-root', visit)
    trans += len(roots)
    while frontier:
        level, frontier[:] = list(frontier), []
        cases = []
        for c in level:
            for a in alpha:
                cases.append(dict(cfg=cfg, vb=c['vb'], items=c['items'] + [a]))
        check_cases(ctx, cases, 'bfs', visit)
        trans += len(cases)
    return len(seen), trans, max([len(c['items']) for c in seen.values()] or [0])


def run(ctx):
    ctx.extra['rule'] = (
        'BFS over the abstract session state (server flags, extension set, edge envelope shape with recipients capped at 2 and null/non-null sender, auth, TLS) of the REAL '
        'Server+SmtpSession per configuration {STARTTLS offered?, AUTH?, SIZE?, immediate TLS ok/failing}: each state is reached by the first command '
        'prefix found and then every symbol (command class x validator verdict {keep,450,550,421,221,raise Exception,raise gevent.Timeout,raise GreenletExit} x malformed variants x queue results x '
        'AUTH/TLS outcomes, ~100 symbols) is issued; plus every sequence up to the stated depth over a 16-symbol alphabet; plus random depth-12 '
        'sequences over the full alphabet; plus command lines of 500..70000 bytes (NOOP/EHLO/MAIL/RCPT/unknown verbs, tails spelling RSET/QUIT/DATA/MAIL behind a piece boundary) '
        'handed out by the socket in recv()-sized pieces, 1460-byte segments and whole; plus unknown verbs spelled like the internal callback/method names of the library (HAVE_DATA, BANNER_, TLSHANDSHAKE(2), CLOSE, custom, every non-command method of SmtpSession/Server; underscore written as hyphen, dot, nothing; case changes, digits; with and without argument): 16 of them at every state of the BFS, all of them at six session states; compared: reply codes per command, ordered handler-callback trace with arguments/params/resulting code, '
        'handoff events, how the session ended, final server+edge state; non-trivial = a case whose commands produced a callback or an error reply')
    ctx.extra['trusted_base'] = [
        'fake socket / fake TLS context (slimta.smtp.io.SSLSocket pointed at the fake TLS socket class), PtrLookup stub, recorder queue; '
        'slimta.edge.smtp.Server replaced by a subclass that only registers the instance; SmtpSession subclass that wraps each existing handler to record it',
        'session state is read from Server.bannered/ehlo_as/have_mailfrom/have_rcptto/authed/encrypted/extensions and SmtpSession.envelope/ehlo_as/auth/extended_smtp/security '
        '(the attributes named by the property) each time the server asks for the next command',
        'model abstractions listed at the top of coq/model/Server.v (reply texts, DATA reader and AUTH/TLS exchanges as oracles, str as UTF-8 bytes)',
    ]
    cfgs = configs(ctx)
    # corpus: the scenarios of the defects this property found (D12, D25), run first
    A0 = {a['name']: a for a in alphabet(cfgs[0])}
    tx = [A0['EHLO/keep'], A0['MAIL/keep'], A0['RCPT/keep']]
    corpus = [tx + [A0[n], A0[after]] for n, after in [
        ('DATA/have_data=550', 'MAIL/keep'),
        ('DATA/have_data=421', 'NOOP'), ('DATA/queued=421', 'NOOP'), ('DATA/relay-error-421', 'NOOP'), ('DATA/have_data=221', 'NOOP'), ('DATA/over-size', 'MAIL/keep'), ('DATA/have_data=450', 'RCPT/keep'), ('DATA/queue-error', 'RCPT/keep'),
        # a callback that runs into a gevent.Timeout of its own / is killed (seed C07-10)
        ('RCPT/raise-gevent.Timeout', 'NOOP'), ('DATA/raise-gevent.Timeout', 'NOOP'), ('DATA/have_data=raise-gevent.Timeout', 'NOOP'),
        ('DATA/queued=raise-gevent.Timeout', 'NOOP'), ('RCPT/raise-GreenletExit', 'NOOP'), ('DATA/have_data=raise-GreenletExit', 'NOOP')]]
    # the null reverse-path opens a transaction like any other sender (seed C07-6)
    corpus += [[A0['EHLO/keep'], A0['MAIL-null-sender/keep'], A0['RCPT/keep'], A0['DATA/keep'], A0['NOOP']],
               [A0['EHLO/keep'], A0['MAIL-null-sender/keep'], A0['MAIL/keep'], A0['RSET'], A0['MAIL-null-sender/SIZE'], A0['RCPT-null-path/keep'], A0['DATA/keep']]]
    corpus += [[A0['EHLO/raise-gevent.Timeout'], A0['NOOP']], [A0['EHLO/keep'], A0['MAIL/raise-gevent.Timeout'], A0['NOOP']]]
    check_cases(ctx, [dict(cfg=cfgs[0], vb=KEEP, items=c) for c in corpus], 'corpus', lambda c, i, m: notes(ctx, c, i))
    tot_states = tot_trans = 0
    per_cfg = {}
    bfs_cfgs = cfgs
    for cfg in bfs_cfgs:
        alpha = alphabet(cfg)
        ns, nt, depth = bfs(ctx, cfg, alpha)
        label = 'tls=%s auth=%d size=%s' % ('immediate-%s' % ('ok' if cfg['imm_ok'] else 'fail') if cfg['imm'] and cfg['context'] else ('starttls' if cfg['context'] else 'none'), cfg['auth'], cfg['size'])
        per_cfg[label] = dict(states=ns, transitions=nt, longest_prefix=depth)
        tot_states += ns
        tot_trans += nt
    ctx.extra['states'] = tot_states
    ctx.extra['transitions'] = tot_trans
    ctx.extra['traces_validated_against_impl'] = tot_trans
    ctx.dist['bfs-per-config'] = per_cfg
    # all sequences to a depth over the reduced alphabet (richest configuration)
    cfg = cfgs[0]
    red = alphabet(cfg, reduced=True)
    depth = 3 if ctx.quick else 4
    cases = []
    for d in range(1, depth + 1):
        for seq in itertools.product(red, repeat=d):
            cases.append(dict(cfg=cfg, vb=KEEP, items=list(seq)))
    ncore = 0
    if not ctx.quick:      # one level deeper over the 9 symbols that move the transaction state
        core = [a for a in red if a['name'] in ('EHLO/keep', 'HELO/keep', 'MAIL/keep', 'MAIL/550', 'RCPT/keep', 'DATA/keep',
                                                'DATA/have_data=550', 'RSET', 'STARTTLS/ok')]
        ncore = len(core)
        for seq in itertools.product(core, repeat=depth + 1):
            cases.append(dict(cfg=cfg, vb=KEEP, items=list(seq)))
    for lo in range(0, len(cases), 5000):
        check_cases(ctx, cases[lo:lo + 5000], 'exhaustive-depth', lambda c, i, m: notes(ctx, c, i))
    ctx.extra['exhaustive'] = True
    ctx.extra['exhaustive_bound'] = (
        'reachable abstract state graph of %d configurations: %d states x full alphabet = %d transitions, every one executed on the real code; '
        'all %d command sequences of length <= %d over a %d-symbol alphabet%s (configuration STARTTLS+AUTH+SIZE)' % (
            len(bfs_cfgs), tot_states, tot_trans, len(cases), depth, len(red),
            ' and of length %d over a %d-symbol core alphabet' % (depth + 1, ncore) if ncore else ''))
    run_long_lines(ctx, cfgs[0])
    run_collisions(ctx, cfgs)
    # random long sequences
    rng = ctx.rng
    n = 500 if ctx.quick else 8000
    cases = []
    for _ in range(n):
        cfg = rng.choice(cfgs)
        alpha = alphabet(cfg)
        weights = [6 if a['name'].endswith('/keep') or a['name'] in ('RSET', 'NOOP', 'STARTTLS/ok') else 1 for a in alpha]
        seq = rng.choices(alpha, weights=weights, k=12)
        seq = [randomise(rng, a) for a in seq]
        cases.append(dict(cfg=cfg, vb=rng.choice([KEEP] * 8 + V), items=seq))
    check_cases(ctx, cases, 'random-depth-12', lambda c, i, m: notes(ctx, c, i))
    # recv_command / MAIL parameter parsing on their own (volume)
    run_parsers(ctx, 2000 if ctx.quick else 40000)


LONG_LENGTHS = [500, 1000, 2047, 2048, 2049, 5000, 10000, 70000]


def run_long_lines(ctx, cfg):
    """command-line LENGTH as a dimension: one line = one final reply however long it is and however the
    socket hands it out (recv()-sized pieces, 1460 byte segments, or whole); a tail that spells a command
    is not a command"""
    A0 = {a['name']: a for a in alphabet(cfg)}
    longs = []
    for n in LONG_LENGTHS:
        longs += [long_item(b'NOOP ', n), long_item(b'EHLO ', n), long_item(b'MAIL FROM:<', n, b'@x.example>'),
                  long_item(b'RCPT TO:<', n, b'@x.example>'), long_item(b'XYZZY ', n), long_item(b'', n, fill=b'Q'),
                  long_item(b'NOOP ', n, b' RSET'), long_item(b'RCPT TO:<r@x.example> ORCPT=', n, b' QUIT')]
    # tails placed right behind a piece boundary, so that a piece on its own reads "RSET" / "QUIT" / "DATA"
    for piece in (4096, 1460, 2048, 2049):
        for k in (1, 2):
            for tail in (b'RSET', b'QUIT', b'DATA', b'MAIL FROM:<evil@x.example>'):
                longs.append(long_item(b'NOOP ', k * piece - 5, tail))
                longs.append(long_item(b'XYZZY ', k * piece - 6, tail))
    cases = []
    for deliver in ('recv', 'mss', 'whole'):
        for it in longs:
            # inside an open transaction (it must survive a NOOP / unknown line), and right after EHLO
            cases.append(dict(cfg=cfg, vb=KEEP, deliver=deliver,
                              items=[A0['EHLO/keep'], A0['MAIL/keep'], A0['RCPT/keep'], it, A0['DATA/keep'], A0['NOOP']]))
            if it['gen'][0][:4] in (b'EHLO', b'MAIL', b'RCPT'):
                cases.append(dict(cfg=cfg, vb=KEEP, deliver=deliver,
                                  items=[A0['EHLO/keep'], it, A0['MAIL/keep'], A0['RCPT/keep'], A0['DATA/keep']]))
    check_cases(ctx, cases, 'long-lines', lambda c, i, m: notes(ctx, c, i))
    ctx.count('long-line-items', len(longs))


def randomise(rng, a):
    """vary identities/addresses/parameters so that data (not only shapes) is compared"""
    a = dict(a)
    l = a['line']
    if l.startswith(b'MAIL FROM:<s@x.example>') and rng.random() < 0.6:
        l = b'MAIL FROM:<' + rng.choice([b's1@x.example', b'', b'"q>"@y.example', 'ü@z.example'.encode(), b'a b@c']) + b'>' + rng.choice(
            [b'', b' BODY=8BITMIME', b' SIZE=7', b' size=121', b' SIZE=120', b' X-Y=a=b', b' SMTPUTF8 ret=HDRS', b'SIZE=5', b' SIZE==5', b' _SIZE=abc'])
    elif l.startswith(b'RCPT TO:<r@x.example>') and rng.random() < 0.6:
        l = b'RCPT TO:<' + rng.choice([b'r%d@x.example' % rng.randrange(5), b'"a>b"@q', 'ß@z'.encode()]) + b'>' + rng.choice([b'', b' NOTIFY=SUCCESS,FAILURE', b' ORCPT=rfc822;x'])
    elif l in (b'EHLO a.example', b'HELO a.example') and rng.random() < 0.5:
        l = l[:5] + rng.choice([b'b.example', b'[192.0.2.7]', 'höst'.encode(), b'x y z'])
    a['line'] = l
    return a


PARSE_PIECES = [b'\\"', b'"', b'\\', b'>', b'MAIL', b'mail', b'RCPT', b'Data', b'NOOP', b' ', b'  ', b'\t', b'\r', b'\x0b', b'FROM:', b'from:', b'TO:', b'<', b'>', b'"', b'a@b', b'=',
                b'SIZE', b'size=', b'10', b'1_0', b'+5', b'-', b'_', b'X-Y', b'BODY=8BITMIME', b'\xff', b'\xc3\xa9', b'1', b'.', b':', b'\\']


def run_parsers(ctx, n):
    from slimta.smtp.io import IO
    from slimta.smtp.server import find_outside_quotes, from_pattern, to_pattern
    rng = ctx.rng
    lines = [b''.join(rng.choice(PARSE_PIECES) for _ in range(rng.randrange(0, 8))).replace(b'\n', b'') for _ in range(n)]
    # line_pattern drops one CR before the LF; the model entry takes the line itself
    mo = ctx.model.batch('c07_parse_line', [l[:-1] if l.endswith(b'\r') else l for l in lines])
    srv = Server.__new__(Server)
    rests = []
    for l, m in zip(lines, mo):
        io = IO(None, ('h', 1))
        io.recv_buffer = l + b'\n'
        got = io.recv_command()
        exp = (_optb(m[0]), _optb(m[1]))
        ctx.evaluations += 1
        if got != exp:
            ctx.mismatch('recv_command', dict(line=l), got, exp)
        rests.append(l)
    mg = ctx.model.batch('c07_gather', rests)
    for l, m in zip(rests, mg):
        got = _params(srv._gather_params(l))
        exp = tuple((B(k), _optb(v)) for (k, v) in m)
        ctx.evaluations += 1
        if got != exp:
            ctx.mismatch('gather_params', dict(rest=l), got, exp)
    mp = ctx.model.batch('c07_path', [[kw, l] for l in rests for kw in (b'FROM', b'TO')])
    pi = iter(mp)
    for l in rests:
        for kw, pat in ((b'FROM', from_pattern), (b'TO', to_pattern)):
            m = next(pi)
            mt = pat.match(l)
            got = None
            if mt:
                e = find_outside_quotes(l, b'>', mt.end(0))
                if e != -1:
                    got = (l[mt.end(0):e], l[e + 1:])
            exp = (B(m[0][0]), B(m[0][1])) if m else None
            ctx.evaluations += 1
            if got != exp:
                ctx.mismatch('mail/rcpt path', dict(arg=l, kw=kw), got, exp)
    vals = [b''.join(rng.choice([b'1', b'0', b'9', b'_', b'+', b'-', b'a', b'', b'12']) for _ in range(rng.randrange(1, 6))) for _ in range(n // 4)]
    vals = [v for v in vals if v]
    mi = ctx.model.batch('c07_py_int', [[v] for v in vals])
    for v, m in zip(vals, mi):
        try:
            x = int(v)
            got = (int(x < 0), abs(x))
        except ValueError:
            got = None
        exp = (m[0][0], m[0][1]) if m else None
        ctx.evaluations += 1
        if got != exp and not (got == (0, 0) and exp == (1, 0)):
            ctx.mismatch('int(SIZE value)', dict(value=v), got, exp)
    ctx.count('parser-cases', 3 * len(lines) + len(vals))


def _unhex(x):
    if isinstance(x, dict) and set(x.keys()) == {'hex'}:
        return bytes.fromhex(x['hex'])
    if isinstance(x, dict):
        return {k: _unhex(v) for k, v in x.items()}
    if isinstance(x, list):
        return [_unhex(v) for v in x]
    return x


def replay(ctx, case):
    c = _unhex(case.get('case', case))
    items = expand(c['items'])
    for it in items:
        it['au'] = list(it['au'])
    deliver = c.get('deliver', 'recv')
    impl = run_impl(c['cfg'], c['vb'], items, deliver)
    print('configuration:', c['cfg'], 'banner verdict:', vname(c['vb']), 'delivery:', deliver)
    print('S:', impl['outs'][0][0], [e for e in impl['outs'][0][1]])
    for i, o in enumerate(impl['outs'][1:]):
        it = items[i]
        print('C: %r   verdicts=%s/%s/%s' % (short(it['line']), vname(it['v1']), vname(it['v2']), vname(it['v3'])))
        print('S:   replies %r  callbacks %r  state-after %r' % (list(o[0]), short(list(o[1])), short(impl['states'][i + 1])))
    print('session: %s%s; commands not read by the server: %r' % (
        ['still open, waiting for the next command', 'closed by the server', 'dropped by an exception'][impl['fin']],
        ' (%s)' % impl['exc'] if impl['exc'] else '', [short(it['line']) for it in items[len(impl['outs']) - 1:]]))

    class C(object):
        def __init__(self):
            self.fails = []

        def fail(self, key, case, what):
            self.fails.append((key, what))
    cc = C()
    oracle(cc, dict(cfg=c['cfg'], vb=c['vb'], items=items, deliver=deliver), impl)
    for k, w in cc.fails:
        print('ORACLE FAILS [%s]: %s' % (k, w))
    if ctx.model:
        mo = run_model_batch(ctx, [dict(cfg=c['cfg'], vb=c['vb'], items=items)])[0]
        print('model (fixed code): replies %r fin %r' % ([list(o[0]) for o in mo['outs']], mo['fin']))
    return 1 if cc.fails else 0
