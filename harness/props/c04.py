"""C04 - a crash at any point never loses an acknowledged message (disk queue).

The real DiskStorage runs on a temp dir with mkstemp / aio_write / aio_read /
os (rename, remove, open, listdir, path.lexists) / uuid patched in the
slimta.diskstorage namespace (storefakes.DiskHarness): every file-system
effect is logged, and the process is "killed" before every effect
  (a) by looking at the directories right there with a FRESH DiskStorage
      (load() and get() are read-only), and
  (b) by raising a private BaseException at the k-th effect of a re-run and
      opening a fresh DiskStorage afterwards,
for histories that are sequential at operation level and for histories whose
operations on different messages overlap effect by effect (gated greenlets).
Correspondence: effect log byte for byte against the model's effect list
(pickle replaced by the number codec nc_*), and load()/get() of the fresh
instance at EVERY crash point against the model's `recover`.  Oracle: the
property statement, from the harness's own bookkeeping of which operations had
returned.  A second stream keeps the real pickle (oracle only)."""
import logging
logging.disable(logging.CRITICAL)
import gevent
from vp.core import B, U
from vp import storefakes as sf
from props import c15
from props.c15 import Ref, enc_op, dec_res, canon_eff, Adapter, SENDERS, RCPTS, CONTENTS

ASSUMPTIONS = [
    'process death: file-system effects are durable in program order (no power-loss reordering; the code never calls fsync)',
    'env_dir, meta_dir and tmp_dir are three different directories; mkstemp names are fresh',
    'operations on the same message are issued one after the other (one greenlet chain per message); operations on different messages overlap arbitrarily',
    'set_recipients_delivered is handed a list sorted highest-first, one marking round per message (for which the shipped and the d5/d6-fixed code write the same bytes; the Queue\'s set argument and multi-round marking are C15/C03 matters)',
    'each message is written once in a history (its id is not drawn again), updates address a written, not yet removed message',
    'aio_write outcomes: the whole piece, a short write ((n+1)//2 bytes, once or repeatedly, by a rule on temp name and offset), or a reported error (EFBIG/ENOSPC); pickle round-trips (the effect-exact runs use the number codec nc_* in its place)',
    'second fault mode "abort with unwinding": an exception (GreenletExit, or IOError(ENOSPC) reported by the aio_write callback) is raised in place of one file-system effect (or, overlapped histories, in every greenlet at its current effect), the code\'s except/finally clauses run with real effects, then the process counts as dead',
    'C04_queue_resumes (the fresh Queue re-schedules every recovered id) is left to the queue model (C12/C01)',
]

IDS = [10, 11, 12]


# ------------------------------------------------------------------ histories
def gen_threads(rng, nmsg, maxops):
    """per message: write + operations on it (tmps disjoint between messages)"""
    threads = [c15.thread_ops(rng, j, 100 * j) for j in range(nmsg)]
    # keep the whole history <= maxops operations
    while sum(len(t) for t in threads) > maxops:
        t = max(threads, key=len)
        if len(t) <= 1:
            break
        t.pop()
    return threads


def merge_order(rng, threads):
    """a sequential history: the operations of the threads merged in random order"""
    idx = [0] * len(threads)
    order = []
    while True:
        alive = [j for j in range(len(threads)) if idx[j] < len(threads[j])]
        if not alive:
            return order
        j = rng.choice(alive)
        order.append((j, threads[j][idx[j]]))
        idx[j] += 1


JUNK = [
    {},
    {(2, 900): b'stray temp'},
    {(0, 90): b'orphan env without meta'},
    {(1, 91): sf.nc_dumps({'timestamp': 7, 'attempts': 1})},
    {(2, 901): b'', (0, 92): b'x', (1, 93): sf.nc_dumps({'timestamp': 8, 'attempts': 0, 'delivered_indexes': [0]})},
]


def enc_init(junk):
    return [[[k, n], data] for (k, n), data in sorted(junk.items())]


# ------------------------------------------------------------------- recovery
def recover(disk, ids):
    """what a fresh DiskStorage on the same directories reports (read-only)"""
    disk.quiet = True
    try:
        st = disk.storage()
        try:
            load = ('load', tuple(sorted((c15.canon_ts(ts), c15.canon_id(i)) for ts, i in st.load())))
        except Exception as e:
            load = ('exc', type(e).__name__)
        gets = []
        for i in ids:
            try:
                env, att = st.get(str(i))
                gets.append(('got',) + sf.env_obs(env) + (att,))
            except (KeyError, FileNotFoundError):
                gets.append(('missing',))
            except IndexError:
                gets.append(('indexerr',))
            except Exception as e:
                gets.append(('exc', type(e).__name__))
        return load, tuple(gets)
    finally:
        disk.quiet = False


def model_recover(v):
    return dec_res(v[0]), tuple(dec_res(x) for x in v[1])


# --------------------------------------------------------------------- oracle
class Progress(object):
    """which operations of which message had returned / started at a crash point"""

    def __init__(self, threads, results=None):
        self.threads = threads
        self.spans = [[None] * len(t) for t in threads]     # (first effect index, index after last)
        self.results = results                               # what the operations returned (uncrashed run)

    def judge(self, ctx, k, rec, case, fail):
        load, gets = rec
        if load[0] != 'load':
            fail(ctx, 'c04:load-raises', dict(case, crash_point=k), 'load() of the fresh instance raised %r' % (load,))
            return
        listed = dict((i, ts) for ts, i in load[1])
        for j, t in enumerate(self.threads):
            id = t[0][3][0]
            ref = Ref()
            inflight = None
            acked = False
            removing = False
            for oi, (o, span) in enumerate(zip(t, self.spans[j])):
                if span is None or span[0] >= k:
                    break                       # not started (no effect of it carried out)
                if span[1] is not None and span[1] <= k:
                    res = self.results[j][oi] if self.results is not None and oi < len(self.results[j]) else None
                    if res is not None and res[0] not in ('id', 'unit', 'att', 'got', 'load'):
                        continue                # the operation raised (a reported write error, a missing message): nothing applied, nothing acknowledged
                    ref.step(o)                 # returned
                    if o[0] == 'write':
                        acked = True
                    if o[0] == 'remove':
                        removing = True
                else:
                    inflight = o
                    if o[0] == 'remove':
                        removing = True
                    break
            if not acked or removing or id not in ref.m:
                continue
            before = ref.m[id]
            allowed = [tuple([before[0], tuple(before[1]), before[2], before[4], before[3]])]
            if inflight is not None:
                r2 = Ref()
                r2.m = {id: [before[0], list(before[1]), before[2], before[3], before[4]]}
                r2.step(inflight)
                a = r2.m[id]
                allowed.append((a[0], tuple(a[1]), a[2], a[4], a[3]))
            got = gets[IDS.index(id)]
            seen = (got[1], got[2], got[3], got[4], listed.get(id)) if got[0] == 'got' else None
            if seen not in allowed:
                fail(ctx, 'c04:acknowledged-message-lost', dict(case, crash_point=k, id=id),
                     'message %d: write had returned and no remove had started, but after the crash the fresh '
                     'DiskStorage reports get=%r load-timestamp=%r; expected one of %r (sender, recipients, content, attempts, timestamp)'
                     % (id, got, listed.get(id), allowed))


# -------------------------------------------------------------------- streams
def fail_after_abort(ctx, key, case, what):
    """same oracle, but the process was stopped by exceptions whose cleanup code ran"""
    c15.fail(ctx, key + '-after-aborted-operation', dict(case, fault='abort with unwinding'), what)


def flat_cleanups(v):
    """model: cleanup commands of every thread at a crash point, in thread order"""
    return [x for th in v for x in th]


def run_sequential(ctx, n_hist, codec, chunk, exception_runs, wrule=None):
    rng = ctx.rng
    fail = c15.fail
    jobs = []
    for _ in range(n_hist):
        nmsg = rng.choice([2, 2, 3])
        threads = gen_threads(rng, nmsg, 6)
        order = merge_order(rng, threads)
        junk = rng.choice(JUNK) if codec else {}
        jobs.append((threads, order, junk))
    points = 0
    for threads, order, junk in jobs:
        cfg = dict(codec=codec, chunk=chunk, wrule=wrule)
        mchunk = chunk if wrule is None else [chunk] + list(wrule)
        ad = Adapter('disk', cfg)
        try:
            disk = ad.disk
            disk.install(junk)
            results = [[] for _ in threads]
            prog = Progress(threads, results)
            recs = []
            eff_thread = []
            cur = [None]

            def hook():
                recs.append(recover(disk, IDS))
            # recovery BEFORE each effect = the crash point with that many effects carried out
            orig_effect = disk.effect

            def effect(desc):
                if not disk.quiet:
                    hook()
                    eff_thread.append(cur[0])
                orig_effect(desc)
            disk.effect = effect
            pos = [0] * len(threads)
            for j, o in order:
                cur[0] = j
                start = len(disk.log)
                results[j].append(ad.do(o, 'desc'))
                prog.spans[j][pos[j]] = (start, len(disk.log))
                pos[j] += 1
            hook()                                   # crash after the last effect
            disk.effect = orig_effect
            n = len(disk.log)
            if wrule is not None:
                ctx.count('write-faults:short', sum(1 for f in disk.write_faults if f[0] == 'short'))
                ctx.count('write-faults:error', sum(1 for f in disk.write_faults if f[0] == 'error'))
            case = dict(stream='sequential', codec=codec, chunk=chunk, wrule=wrule, threads=threads,
                        order=[(j, o[0]) for j, o in order], junk=sorted(junk), junk_index=JUNK.index(junk))
            # ---- oracle at every crash point
            for k in range(n + 1):
                prog.judge(ctx, k, recs[k], case, fail)
                ctx.evaluated(('seq', codec, tuple(map(tuple, threads)), tuple(j for j, _ in order), k),
                              nontrivial=0 < k < n)
                points += 1
            ctx.count('histories:sequential:%s%s' % ('codec' if codec else 'pickle', ':write-faults' if wrule else ''))
            ctx.count('crash-points:sequential', n + 1)
            # every thread's results against the reference (no crash)
            errors_injected = any(f[0] == 'error' for f in disk.write_faults)
            for j, t in enumerate(threads):
                ref = Ref()
                want = []
                for o, got in zip(t, results[j]):
                    if errors_injected and got == ('exc', 'OSError') and o[0] in ('write', 'setts', 'incr', 'deliv'):
                        want.append(got)        # a reported write error: the operation is refused, nothing applied
                    else:
                        want.append(ref.step(o))
                if results[j] != want:
                    fail(ctx, 'c04:uncrashed-results', case, 'thread %d returned %r, reference %r' % (j, results[j], want))
            if not codec:
                continue
            # ---- correspondence: effect log and recover at every crash point
            mo = ctx.model.call('c04_crash_all', [[[enc_op(o) for o in t] for t in threads], eff_thread, IDS, mchunk, enc_init(junk)])
            mlog = [(x[0], x[1]) for x in mo[0]]
            ilog = [(j, canon_eff(d)) for j, d in zip(eff_thread, disk.log)]
            corr = True          # model and code agree so far; if not, the oracle-only search goes on
            if ilog != mlog:
                d = next((i for i in range(min(len(ilog), len(mlog))) if ilog[i] != mlog[i]), min(len(ilog), len(mlog)))
                ctx.mismatch('effects', dict(case, at=d), ilog[d:d + 3], mlog[d:d + 3])
                corr = False
            mrecs = [model_recover(v[0]) for v in mo[1]]
            mabort = [model_recover(v[1]) for v in mo[1]]
            mclean = [flat_cleanups(v[2]) for v in mo[1]]
            for k in range(n + 1):
                if corr and recs[k] != mrecs[k]:
                    ctx.mismatch('recover', dict(case, crash_point=k), recs[k], mrecs[k])
                    break
            mres = [[dec_res(x) for x in t[0]] for t in mo[2]]
            if corr and mres != results:
                ctx.mismatch('results', case, results, mres)
            if len(ctx.samples) < 3:
                ctx.sample(dict(threads=threads, effects=n, log_head=[str(x) for x in ilog[:8]]))
            # ---- (b) the same crash points by raising at the k-th effect of a re-run
            if exception_runs:
                for k in range(n):
                    ad2 = Adapter('disk', cfg)
                    try:
                        ad2.disk.install(junk)
                        ad2.disk.crash_at = k
                        try:
                            for j, o in order:
                                ad2.do(o, 'desc')
                            crashed = False
                        except sf.Crash:
                            crashed = True
                        ad2.disk.crash_at = None
                        rec2 = recover(ad2.disk, IDS)
                        ctx.count('crash-points:exception')
                        points += 1
                        prog.judge(ctx, k, rec2, dict(case, crash_point=k, fault='exception at the effect, then dead'), fail)
                        if not crashed or rec2 != recs[k]:
                            ctx.mismatch('exception-crash', dict(case, crash_point=k, crashed=crashed), rec2, recs[k])
                            break
                    finally:
                        ad2.close()
                # ---- (c) abort with unwinding: one exception at the k-th effect (GreenletExit, or ENOSPC
                # out of aio_write), the code's own except/finally clauses run with real effects, then
                # the process is gone
                full_log = list(disk.log)
                for k in range(n):
                    if full_log[k][0] == 'close':
                        continue
                    ad3 = Adapter('disk', cfg)
                    try:
                        ad3.disk.install(junk)
                        ad3.disk.abort_at = k
                        ad3.disk.abort_mode = 'enospc' if (full_log[k][0] == 'write' and k % 2 == 0) else 'exit'
                        try:
                            for j, o in order:
                                ad3.do(o, 'desc')
                                if ad3.disk.aborted:
                                    break
                        except gevent.GreenletExit:
                            pass
                        rec3 = recover(ad3.disk, IDS)
                        acase = dict(case, crash_point=k, abort=ad3.disk.abort_mode, at_effect=str(full_log[k][:3]))
                        prog.judge(ctx, k, rec3, acase, fail_after_abort)
                        ctx.evaluated(('abort-seq', tuple(map(tuple, threads)), tuple(j for j, _ in order), k, ad3.disk.abort_mode), nontrivial=True)
                        ctx.count('abort-points:sequential:' + ad3.disk.abort_mode)
                        points += 1
                        tail = [canon_eff(d) for d in ad3.disk.log[k:]]
                        if not corr:
                            pass
                        elif not ad3.disk.aborted or tail != mclean[k] or [canon_eff(d) for d in ad3.disk.log[:k]] != [e for _, e in ilog[:k]]:
                            ctx.mismatch('abort-effects', acase, tail, mclean[k])
                        elif rec3 != mabort[k]:
                            ctx.mismatch('abort-recover', acase, rec3, mabort[k])
                    finally:
                        ad3.close()
        finally:
            ad.close()
    return points


def run_overlapped(ctx, n_hist, chunk, abort_every=1):
    """operations on different messages overlap effect by effect (gated greenlets);
    the scheduler looks at the directories between any two effects"""
    rng = ctx.rng
    fail = c15.fail
    points = 0
    for _ in range(n_hist):
        nmsg = rng.choice([2, 2, 3])
        threads = gen_threads(rng, nmsg, 6)
        junk = rng.choice(JUNK)
        sch = [rng.randrange(nmsg) for _ in range(rng.choice([30, 120, 300]))] + [j for j in range(nmsg) for _ in range(150)]
        gates = sf.Gates()
        ad = Adapter('disk', dict(codec=True, chunk=chunk), gates=gates)
        try:
            disk = ad.disk
            disk.install(junk)
            prog = Progress(threads)
            results = [[] for _ in threads]
            pos = [0] * len(threads)
            nlog = [0]

            def body(j):
                def run():
                    for o in threads[j]:
                        # the operation "starts" with its first effect; record spans from the log
                        prog.spans[j][pos[j]] = [None, None]
                        results[j].append(ad.do(o, 'desc'))
                        prog.spans[j][pos[j]][1] = len(disk.log)
                        pos[j] += 1
                return run
            gs = [gevent.spawn(body(j)) for j in range(nmsg)]
            for g in gs:
                sf.settle(gs, gates, g)
            recs = [recover(disk, IDS)]
            executed = []
            for i in sch:
                g = gs[i]
                if g.dead or g not in gates.pending:
                    continue
                # this effect is the first of the thread's current operation?
                sp = prog.spans[i][pos[i]] if pos[i] < len(threads[i]) else None
                if sp is not None and sp[0] is None:
                    sp[0] = len(disk.log)
                desc = gates.release(g)
                executed.append((i, desc))
                sf.settle(gs, gates, g)
                recs.append(recover(disk, IDS))
            stuck = [g for g in gs if not g.dead]
            sf.kill_all(gs)
            n = len(executed)
            case = dict(stream='overlapped', chunk=chunk, threads=threads, schedule=[i for i, _ in executed],
                        junk=sorted(junk), junk_index=JUNK.index(junk))
            if stuck:
                ctx.mismatch('overlapped-unfinished', case, len(stuck), 0)
                continue
            for j in range(nmsg):
                for sp in prog.spans[j]:
                    if sp is not None and sp[0] is None:     # operation without any effect cannot happen
                        sp[0] = sp[1]
            for k in range(n + 1):
                prog.judge(ctx, k, recs[k], case, fail)
                ctx.evaluated(('ovl', tuple(map(tuple, threads)), tuple(i for i, _ in executed), k), nontrivial=0 < k < n)
                points += 1
            ctx.count('histories:overlapped')
            ctx.count('crash-points:overlapped', n + 1)
            mo = ctx.model.call('c04_crash_all', [[[enc_op(o) for o in t] for t in threads], [i for i, _ in executed], IDS, chunk, enc_init(junk)])
            mlog = [(x[0], x[1]) for x in mo[0]]
            ilog = [(i, canon_eff(d)) for i, d in executed]
            corr = True
            if ilog != mlog:
                d = next((i for i in range(min(len(ilog), len(mlog))) if ilog[i] != mlog[i]), min(len(ilog), len(mlog)))
                ctx.mismatch('effects-overlapped', dict(case, at=d), ilog[d:d + 3], mlog[d:d + 3])
                corr = False
            mrecs = [model_recover(v[0]) for v in mo[1]]
            mabort = [model_recover(v[1]) for v in mo[1]]
            mclean = [flat_cleanups(v[2]) for v in mo[1]]
            for k in range(n + 1):
                if corr and recs[k] != mrecs[k]:
                    ctx.mismatch('recover-overlapped', dict(case, crash_point=k), recs[k], mrecs[k])
                    break
            mres = [[dec_res(x) for x in t[0]] for t in mo[2]]
            if corr and mres != results:
                ctx.mismatch('results-overlapped', case, results, mres)
            # ---- the process is being stopped: after k effects every greenlet is killed (GreenletExit at
            # its gate), the cleanup clauses of all operations in flight run, then a fresh instance looks
            for k in range(0, n, abort_every):
                gates2 = sf.Gates()
                ad2 = Adapter('disk', dict(codec=True, chunk=chunk), gates=gates2)
                try:
                    ad2.disk.install(junk)

                    def body2(j):
                        def run():
                            for o in threads[j]:
                                ad2.do(o, 'desc')
                        return run
                    gs2, ex2 = sf.run_threads([body2(j) for j in range(nmsg)], [i for i, _ in executed[:k]], gates2)
                    gates2.enabled = False
                    sf.kill_all(gs2)
                    rec2 = recover(ad2.disk, IDS)
                    acase = dict(case, crash_point=k, abort='every greenlet killed')
                    prog.judge(ctx, k, rec2, acase, fail_after_abort)
                    ctx.evaluated(('abort-ovl', tuple(map(tuple, threads)), tuple(i for i, _ in executed[:k])), nontrivial=True)
                    ctx.count('abort-points:overlapped')
                    points += 1
                    tail = [canon_eff(d) for d in ad2.disk.log[k:]]
                    if not corr:
                        pass
                    elif len(ex2) != k or tail != mclean[k]:
                        ctx.mismatch('abort-effects-overlapped', acase, tail, mclean[k])
                    elif rec2 != mabort[k]:
                        ctx.mismatch('abort-recover-overlapped', acase, rec2, mabort[k])
                finally:
                    ad2.close()
        finally:
            ad.close()
    return points


def run(ctx):
    q = ctx.quick
    c15._seen.clear()
    sf.FdGuard.peak = 0
    with sf.FdGuard('c04 sequential'):
        p1 = run_sequential(ctx, 14 if q else 300, True, ctx.rng.choice([5, 7, 11]), True)
    with sf.FdGuard('c04 overlapped'):
        p2 = run_overlapped(ctx, 12 if q else 300, 9, abort_every=2 if q else 3)
    with sf.FdGuard('c04 real pickle'):
        p3 = run_sequential(ctx, 6 if q else 120, False, 64, False)
    with sf.FdGuard('c04 short writes'):
        # every third (temp, offset) stores only half of what was asked; then also reported errors
        p4 = run_sequential(ctx, 6 if q else 120, True, 9, True, wrule=(3, 1, 0, 0))
        p4 += run_sequential(ctx, 5 if q else 100, True, 7, False, wrule=(2, 0, 11, 4))
        p4 += run_sequential(ctx, 3 if q else 60, False, 16, False, wrule=(2, 1, 0, 0))
    ctx.note('file descriptors: at most %d open at a time during the run (every stream is checked for leaks; '
             'descriptors an interrupted operation left open are closed by the harness after judging)' % sf.FdGuard.peak)
    stray = 0
    ctx.note('not judged: temp files of interrupted dumps stay in tmp_dir, an interrupted write() leaves an orphan '
             '<id>.env (logged and skipped by load()), an interrupted remove() leaves an orphan <id>.meta - none of '
             'them is ever cleaned up')
    ctx.extra['rule'] = (
        'histories: 2-3 messages, <= 6 operations (write, set_timestamp, increment_attempts, '
        'set_recipients_delivered with a set, get, remove), chunk_size 5-11 bytes so every pickle takes several '
        'aio_write calls, optional junk in the directories (stray temp, orphan env, orphan meta); a crash point '
        '= number of file-system effects carried out (0..n, EVERY one of them); sequential histories: %d crash '
        'points incl. re-runs that raise at the k-th effect; overlapped (gated greenlets, random effect-level '
        'schedules): %d crash points; real pickle (oracle only): %d crash points; with short writes (an aio_write stores (n+1)//2 of the n bytes asked for, chosen by temp name and offset) and reported write errors (EFBIG/ENOSPC): %d crash points.  At each point a fresh DiskStorage '
        'does load() and get() of every id; compared with the model\'s recover and judged by the statement.  '
        'non-trivial = a crash strictly inside the history' % (p1, p2, p3, p4))
    ctx.extra['exhaustive'] = True
    ctx.extra['exhaustive_bound'] = 'every crash point (0..n effects) of every generated history'
    ctx.extra['trusted_base'] = [
        'file system = ordered atomic effects (process death only); the patched mkstemp/aio_write/aio_read/os functions carry out the real system calls on a temp dir',
        'pickle: replaced inside slimta.diskstorage by the number codec nc_* for the effect-exact runs (round trip proved in Coq); the real pickle is used in the oracle-only stream',
    ]


def replay(ctx, case):
    """re-executes the fault of a recorded case on the current tree"""
    import json
    c = case.get('case', case)
    print(json.dumps({k: v for k, v in case.items() if k != 'case'}, indent=1)[:1500])
    if 'threads' not in c or 'crash_point' not in c:
        print(json.dumps(c, indent=1)[:3000])
        return 0

    def tup(o):
        return tuple(tup(x) if isinstance(x, list) else (bytes.fromhex(x['hex']) if isinstance(x, dict) and 'hex' in x else x) for x in o)
    threads = [[tup(o) for o in t] for t in c['threads']]
    junk = JUNK[c.get('junk_index', 0)]
    k = c['crash_point']
    abort = c.get('abort')
    if c['stream'] == 'sequential':
        ad = Adapter('disk', dict(codec=c.get('codec', True), chunk=c['chunk'], wrule=tuple(c['wrule']) if c.get('wrule') else None))
        try:
            ad.disk.install(junk)
            if abort:
                ad.disk.abort_at = k
                ad.disk.abort_mode = abort if abort in ('exit', 'enospc') else 'exit'
            else:
                ad.disk.crash_at = k
            pos = [0] * len(threads)
            try:
                for j, name in c['order']:
                    o = threads[j][pos[j]]; pos[j] += 1
                    r = ad.do(o, 'desc')
                    print('thread', j, o[0], o[1] if o[0] != 'write' else o[3], '->', r)
                    if ad.disk.aborted:
                        break
            except (sf.Crash, gevent.GreenletExit) as e:
                print('thread', j, o[0], '-> interrupted by', type(e).__name__, 'at effect', k)
            ad.disk.crash_at = None
            for d in ad.disk.log[max(0, k - 4):]:
                print('   effect', d[:3])
            for f in ad.disk.write_faults:
                print('   aio_write outcome', f)
            print('fresh DiskStorage: load/get ->', recover(ad.disk, IDS))
        finally:
            ad.close()
    else:
        gates = sf.Gates()
        ad = Adapter('disk', dict(codec=True, chunk=c['chunk']), gates=gates)
        try:
            ad.disk.install(junk)

            def body(j):
                def run():
                    for o in threads[j]:
                        ad.do(o, 'desc')
                return run
            gs, ex = sf.run_threads([body(j) for j in range(len(threads))], c['schedule'][:k], gates)
            if abort:
                gates.enabled = False
                sf.kill_all(gs)
            for i, d in ex[max(0, k - 6):]:
                print('   thread', i, 'effect', d[:3])
            for d in ad.disk.log[k:]:
                print('   cleanup effect', d[:3])
            print('fresh DiskStorage: load/get ->', recover(ad.disk, IDS))
            if not abort:
                sf.kill_all(gs)
        finally:
            ad.close()
    return 0
