"""C10 - the pipelining client pairs every reply with the command that caused it.

Correspondence of coq/model/Client.v with slimta.smtp.client.Client/LmtpClient
(on a scripted fake socket) and the property oracle on the implementation.

The fake server is reactive in the only sense that matters here: the reply
stream is built from the commands a client *puts on the wire* - one reply per
command line, one per accepted recipient after an LMTP end-of-data, nothing for
a call that raises before sending (non-encodable address, NotImplemented) - and
every scripted reply carries a token naming the call it answers.  The oracle
then checks, on what the real client did, that the Reply object a call returned
ends up holding exactly the reply scripted for that call, that the bytes taken
from the stream are exactly the replies owed so far, and that the LMTP
end-of-data replies pair with the accepted recipients in order."""
import itertools, re, random

from vp.core import B, U
from vp.fakes import ScriptSocket, segmentations

import slimta.smtp.client as CM
from slimta.smtp.client import Client, LmtpClient
from slimta.smtp.reply import Reply
from slimta.smtp.datasender import DataSender
from slimta.smtp import BadReply, ConnectionLost

ASSUMPTIONS = [
    'fake socket: recv() returns the scripted chunks (non-empty), b"" at the end (EOF => ConnectionLost); sendall() never fails',
    'the server answers every command line with exactly one reply, an LMTP end-of-data with one reply per recipient it accepted, '
    'and sends nothing for a call that raises before anything was put on the wire',
    'reply scripts: three-digit codes 2xx-5xx (a few 1xx), 1-3 lines, valid UTF-8, lines without LF',
    'str identifiers/addresses (bytes identifiers for ehlo/helo/lhlo are not exercised); starttls/auth/encrypt not exercised',
    'DataSender output is taken as given (C05); only the pairing of the end-of-data replies is judged',
]

EXN = {1: 'UnicodeEncodeError', 2: 'NotImplementedError', 3: 'AttributeError', 4: 'BadReply',
       5: 'ValueError(code)', 6: 'ConnectionLost', 7: 'after-ConnectionLost', 8: 'Other'}
ALPHABET = ['hello', 'mailfrom', 'rcptto', 'data', 'send_data', 'send_empty_data', 'rset', 'quit', 'custom']
FLUSHING = ('banner', 'hello', 'helo', 'data', 'rset', 'quit', 'custom')


class Sock(ScriptSocket):
    def __init__(self, chunks):
        ScriptSocket.__init__(self, chunks)
        self.sends = []

    def sendall(self, data):
        self.sends.append(bytes(data))


# ------------------------------------------------------------------ implementation side
def payload_of(parts):
    return b''.join(DataSender(*parts))


def call_op(client, op):
    m = op['m']
    if m == 'banner':
        return client.get_banner()
    if m == 'hello':
        return client.lhlo(op['arg']) if op.get('verb') == 'lhlo' else client.ehlo(op['arg'])
    if m == 'helo':
        return client.helo(op['arg'])
    if m == 'mailfrom':
        return client.mailfrom(op['addr'], data_size=op.get('size'), auth=op.get('auth'))
    if m == 'rcptto':
        return client.rcptto(op['addr'])
    if m == 'data':
        return client.data()
    if m == 'send_data':
        return client.send_data(*op['parts'])
    if m == 'send_empty_data':
        return client.send_empty_data()
    if m == 'rset':
        return client.rset()
    if m == 'quit':
        return client.quit()
    if m == 'custom':
        return client.custom_command(op['cmd'], op.get('carg'))
    if m == 'get_reply':
        return client.get_reply(op['cmd'])
    raise ValueError(m)


def run_impl(case):
    """-> (trace, objects); trace = [(result, snapshot)] per executed call"""
    registry = []

    class RecReply(Reply):
        def __init__(self, *a, **k):
            Reply.__init__(self, *a, **k)
            registry.append(self)

    def idx(r):
        for i, x in enumerate(registry):
            if x is r:
                return i
        return 9999

    saved = CM.Reply
    CM.Reply = RecReply
    try:
        sock = Sock(case['chunks'])
        client = (LmtpClient if case['lmtp'] else Client)(sock, ('192.0.2.1', 25))
        for e in case['exts0']:
            client.extensions.add(e)
        trace = []
        returned = []
        for op in case['ops']:
            try:
                res = call_op(client, op)
            except UnicodeEncodeError:
                r = (2, 1); res = None
            except NotImplementedError:
                r = (2, 2); res = None
            except AttributeError:
                r = (2, 3); res = None
            except BadReply:
                r = (2, 4); res = None
            except ValueError:
                r = (2, 5); res = None
            except ConnectionLost:
                r = (2, 6); res = None
            except Exception:
                r = (2, 8); res = None
            else:
                if isinstance(res, list):
                    r = (1, tuple((a, idx(x)) for a, x in res))
                else:
                    r = (0, idx(res))
            returned.append(res)
            snap = (
                tuple((o.command or b'', o.code or '', (o.message or '') if o.code else '', o.enhanced_status_code) for o in registry),
                tuple(idx(o) for o in client.reply_queue),
                client.io.send_buffer.getvalue(),
                tuple(sock.sends),
                tuple(sorted(client.extensions.extensions.keys())),
                client.io.recv_buffer,
                len(sock.chunks),
                tuple((a, idx(o)) for a, o in getattr(client, 'rcpttos', [])),
                None if client.last_error is None else idx(client.last_error),
                1 if r == (2, 6) else 0,
            )
            trace.append((r, snap, client.io.recv_buffer + sock.unread()))
            if r == (2, 6):
                break
        return trace, registry, returned
    finally:
        CM.Reply = saved


# ------------------------------------------------------------------ model side
def enc_op(op):
    m = op['m']
    if m == 'banner':
        return [0]
    if m == 'get_reply':
        return [1, op['cmd']]
    if m == 'hello':
        return [4 if op.get('verb') == 'lhlo' else 2, op['arg']]
    if m == 'helo':
        return [3, op['arg']]
    if m == 'mailfrom':
        size = op.get('size'); auth = op.get('auth')
        return [5, op['addr'], [] if size is None else [str(size)],
                [] if auth is None else ([0] if auth is False else [auth])]
    if m == 'rcptto':
        return [6, op['addr']]
    if m == 'data':
        return [7]
    if m == 'send_data':
        return [8, payload_of(op['parts'])]
    if m == 'send_empty_data':
        return [9]
    if m == 'rset':
        return [10]
    if m == 'quit':
        return [11]
    if m == 'custom':
        return [12, op['cmd'], op.get('carg') or b'']
    raise ValueError(m)


def model_input(case):
    return [1 if case['lmtp'] else 0, list(case['exts0']), list(case['chunks']), [enc_op(o) for o in case['ops']]]


def model_trace(out):
    """canonical model output -> same shape as run_impl's trace (result, snapshot)"""
    tr = []
    for res, st in out:
        if res[0] == 0:
            r = (0, res[1])
        elif res[0] == 1:
            r = (1, tuple((U(a), i) for a, i in res[1]))
        else:
            r = (2, res[1])
        objs, queue, sendbuf, sent, exts, rbuf, nch, rcpttos, lasterr, dead = st
        snap = (
            tuple((B(o[0]), U(o[1]), U(o[2]), (U(o[3][0]) if o[3] else None)) for o in objs),
            tuple(queue), B(sendbuf), tuple(B(x) for x in sent),
            tuple(sorted(set(U(e) for e in exts))), B(rbuf), nch,
            tuple((U(a), i) for a, i in rcpttos),
            (lasterr[0] if lasterr else None), dead)
        tr.append((r, snap))
        if r == (2, 6):
            break
    return tr


# ------------------------------------------------------------------ the script (what the server sends)
WORDS = ['Ok', 'queued', 'go ahead', 'nope', 'try later', 'héllo', 'bye', 'x' * 30, '2.1.5 looks-like-esc', '']
ESC_PRE = ['', '', '', '2.0.0 ', '5.1.1 ', '4.2.0 ', '2.1.5  ', '5.7.999 ']
KEYWORDS = ['PIPELINING', 'SMTPUTF8', 'SIZE 1000', 'AUTH PLAIN LOGIN', '8BITMIME', 'pipelining', ' STARTTLS', 'X-FOO bar',
            'ENHANCEDSTATUSCODES', '', '=bad', 'SIZE', 'smtputf8 ']
CODES = {2: ['250', '250', '250', '220', '221', '251', '235', '299'], 3: ['354', '334', '300'],
         4: ['450', '451', '421', '452'], 5: ['550', '554', '500', '503', '501', '599'], 1: ['100', '199']}
ADDR_OK = ['a@example.com', 'rcpt1@example.org', 'bob', '', 'x+y@z']
ADDR_BAD = ['résumé@example.com', 'ü@x', 'a@例え.jp']
ADDR_SURR = ['bad\ud800@x']


def tok(i, j=None, line=0):
    return '<op%d%s:%d>' % (i, '' if j is None else '.%d' % j, line)


def gen_reply(rng, i, j=None, hello=False, cls=None, kw=None):
    """one scripted reply for call i (j: LMTP recipient ordinal) -> dict(code, lines)"""
    if cls is None:
        cls = rng.choice([2, 2, 2, 2, 3, 4, 5, 5])
        if rng.random() < 0.02:
            cls = 1
    code = rng.choice(CODES[cls])
    if hello and cls == 2 and (kw is not None or rng.random() < 0.85):
        code = '250'
    n = rng.choice([1, 1, 2, 3])
    lines = []
    if hello:
        lines.append(rng.choice(ESC_PRE) + tok(i, j, 0) + ' greets you')
        n = rng.choice([1, 2, 3, 4])
        for k in range(1, n):
            lines.append(rng.choice(KEYWORDS))
        if kw is not None:
            lines[1:] = list(kw)
    else:
        for k in range(n):
            lines.append((rng.choice(ESC_PRE) if k == 0 else '') + tok(i, j, k) + (' ' + rng.choice(WORDS)).rstrip(' '))
    return dict(code=code, lines=lines)


def wire_of(rep):
    c = rep['code'].encode('ascii')
    ls = rep['raw'] if rep.get('raw') else [l.encode('utf-8') for l in rep['lines']]
    return b''.join(c + b'-' + l + b'\r\n' for l in ls[:-1]) + c + b' ' + ls[-1] + b'\r\n'


def ext_names(rep):
    """reference for Extensions.parse_string: names advertised by a hello reply (upper case)"""
    names = set()
    for l in rep['lines'][1:]:
        m = re.match(r'^\s*([a-zA-Z0-9][a-zA-Z0-9-]*)', l)
        if m:
            names.add(m.group(1).upper())
    return names


def encodable(s, utf8):
    try:
        s.encode('utf-8' if utf8 else 'ascii')
        return True
    except UnicodeEncodeError:
        return False


def plan_case(rng, lmtp, exts0, ops, extra_mode='replies'):
    """The reference: which calls put a command on the wire and which replies the
    server therefore sends.  -> (script, plan) ; plan[i] = dict(expect=..., replies=[script idx], kind)"""
    exts = set(e.upper() for e in exts0)
    script = []
    plan = []
    txn = []          # LMTP: (address, script index of the RCPT reply) of this transaction
    for i, op in enumerate(ops):
        m = op['m']
        p = dict(expect='reply', replies=[], kind='plain', must_fill=True)
        if m in ('banner', 'helo'):
            p['kind'] = 'noesc'
        if m == 'hello':
            p['kind'] = 'hello'
        wrong_class = (m == 'hello' and ((op.get('verb') == 'lhlo') != lmtp)) or (m == 'helo' and lmtp)
        if wrong_class:
            p['expect'] = 'NotImplementedError'
        elif m in ('hello', 'helo') and not encodable(op['arg'], False):
            p['expect'] = 'UnicodeEncodeError'
        elif m == 'mailfrom' and not (encodable(op['addr'], 'SMTPUTF8' in exts) and
                                      (not isinstance(op.get('auth'), str) or 'AUTH' not in exts or
                                       encodable(op['auth'], 'SMTPUTF8' in exts))):
            p['expect'] = 'UnicodeEncodeError'
        elif m == 'rcptto' and not encodable(op['addr'], 'SMTPUTF8' in exts):
            p['expect'] = 'UnicodeEncodeError'
        elif lmtp and m in ('send_data', 'send_empty_data'):
            p['expect'] = 'pairs'
            acc = [(a, si) for a, si in txn if script[si]['code'][0] == '2']
            p['accepted'] = [a for a, si in acc]
            for j, (a, si) in enumerate(acc):
                p['replies'].append(len(script))
                script.append(gen_reply(rng, i, j))
            p['must_fill'] = 'PIPELINING' not in exts
            txn = []
        else:
            rep = gen_reply(rng, i, hello=(m == 'hello'), cls=op.get('cls'), kw=op.get('kw'))
            p['replies'].append(len(script))
            script.append(rep)
            if m == 'hello' and rep['code'] == '250':
                exts = ext_names(rep)
                if lmtp:
                    txn = []
            if m in ('mailfrom', 'rcptto', 'send_data', 'send_empty_data'):
                p['must_fill'] = 'PIPELINING' not in exts
            if m == 'rcptto' and lmtp:
                txn.append((op['addr'], len(script) - 1))
            if m == 'rset' and lmtp:
                txn = []
        if p['expect'] in ('UnicodeEncodeError', 'NotImplementedError'):
            p['must_fill'] = False           # nothing sent, nothing flushed
        plan.append(p)
    return script, plan


VERB = dict(banner=b'[BANNER]', helo=b'HELO', mailfrom=b'MAIL', rcptto=b'RCPT', data=b'DATA',
            send_data=b'[SEND_DATA]', send_empty_data=b'[SEND_DATA]', rset=b'RSET', quit=b'QUIT')


def expected_command(op, lmtp):
    m = op['m']
    if m == 'hello':
        return b'LHLO' if op.get('verb') == 'lhlo' else b'EHLO'
    if m == 'custom':
        return op['cmd'].upper()
    if m == 'get_reply':
        return op['cmd']
    return VERB[m]


def ref_message(kind, rep):
    """what a Reply object configured like the method configures it shows for the scripted reply"""
    r = Reply()
    if kind in ('noesc', 'hello'):
        r.enhanced_status_code = False
    r.code = rep['code']
    text = '\r\n'.join(rep['lines'])
    if kind == 'hello' and rep['code'] == '250':
        text = rep['lines'][0]
    r.message = text
    return r.message


TOKEN = re.compile(r'<op\d+(?:\.\d+)?:\d+>')


def own_tokens(kind, rep):
    ls = rep['lines'][:1] if (kind == 'hello' and rep['code'] == '250') else rep['lines']
    return [t for l in ls for t in TOKEN.findall(l)]


def oracle(report, case, trace, registry, returned):
    """the property statement on what the implementation did; returns True when it holds"""
    script, plan, ops = case['script'], case['plan'], case['ops']
    stream = b''.join(case['chunks'])
    wires = [wire_of(r) for r in script]
    held = {}        # object (creation index) -> (script index, kind, call index)
    order = []       # reply objects in the order the server owes them

    def fail(key, what, i):
        # name the failing-input class by its signature
        enc_before = any(plan[k]['expect'] == 'UnicodeEncodeError' for k in range(0, min(i + 1, len(plan))))
        if key == 'c10:lmtp-outcome' and 'AttributeError' in what and not pending:
            key = 'c10:lmtp-data-before-flush'
        elif enc_before and (pending or key == 'c10:orphan-slot'):
            key = 'c10:encode-error-desync'
        what = 'call %d (%s): %s' % (i, ops[i]['m'] if i < len(ops) else '-', what)
        if pending:
            what += ' [consequence of: %s]' % pending[0][1]
        report(key, case, what)
        return False

    pending = []     # an orphan slot was seen: keep going to show what it does to the later replies
    for i, (r, snap, remaining) in enumerate(trace):
        p = plan[i]; res = returned[i]
        # 1. outcome of the call
        if p['expect'] in ('UnicodeEncodeError', 'NotImplementedError'):
            if r != (2, 1 if p['expect'] == 'UnicodeEncodeError' else 2):
                return fail('c10:outcome', 'expected %s, got %r' % (p['expect'], r), i)
        elif p['expect'] == 'pairs':
            if r[0] != 1:
                return fail('c10:lmtp-outcome', 'expected [(address, Reply)...], got %s' % (EXN.get(r[1], r),), i)
            if [a for a, _ in res] != p['accepted']:
                return fail('c10:lmtp-pairing', 'end-of-data replies for %r, accepted recipients were %r' % ([a for a, _ in res], p['accepted']), i)
            for (a, oi), si in zip(r[1], p['replies']):
                held[oi] = (si, 'plain', i); order.append(oi)
        else:
            if r[0] != 0:
                return fail('c10:outcome', 'expected a Reply, got %s' % (EXN.get(r[1], r),), i)
            if res.command != expected_command(ops[i], case['lmtp']):
                return fail('c10:command', 'Reply.command %r' % (res.command,), i)
            held[r[1]] = (p['replies'][0], p['kind'], i); order.append(r[1])
        # 2. every reply object handed out so far holds its own reply or nothing yet; filled ones form a prefix
        seen_unfilled = False
        nfilled = 0
        for oi in order:
            si, kind, ci = held[oi]
            o_command, o_code, o_message, o_esc = snap[0][oi]      # the object as it was after this call
            if not o_code:
                seen_unfilled = True
                continue
            if seen_unfilled:
                return fail('c10:order', 'reply of call %d filled while an earlier one is not' % ci, i)
            nfilled += 1
            rep = script[si]
            want = ref_message(kind, rep)
            toks = TOKEN.findall(o_message or '')
            if o_code != rep['code'] or o_message != want or toks != own_tokens(kind, rep):
                return fail('c10:mispaired', 'Reply of call %d (%s) holds (%r, %r); the server answered that call with (%r, %r)' % (
                    ci, ops[ci]['m'], o_code, o_message, rep['code'], want), i)
        # 3. populated immediately where the API says so
        if p['must_fill'] and nfilled != len(order):
            return fail('c10:not-filled', '%d of %d replies filled after a flushing call' % (nfilled, len(order)), i)
        # 4. bytes taken from the stream = exactly the replies filled so far
        want_rem = b''.join(wires[nfilled:]) + case['extra']
        if remaining != want_rem:
            return fail('c10:overread', 'unread bytes %r, expected %r (replies owed and read: %d)' % (remaining[:80], want_rem[:80], nfilled), i)
        # 5. no reply object the caller never got is waiting (an orphan slot steals the next reply)
        if not pending and len(snap[1]) != len(order) - nfilled:
            pending.append(('c10:orphan-slot', 'call %d (%s) left reply_queue with %d objects while %d replies are owed' % (
                i, ops[i]['m'], len(snap[1]), len(order) - nfilled), i))
    if pending and len(trace) == len(ops):
        key, what, i = pending.pop()
        return fail(key, what, i)
    if len(trace) != len(ops):
        return fail('c10:outcome', 'sequence stopped after %d calls (ConnectionLost)' % len(trace), len(trace) - 1)
    return True


def public_case(case):
    return dict(lmtp=case['lmtp'], exts0=list(case['exts0']), ops=case['ops'], chunks=list(case['chunks']),
                script=case['script'], plan=case['plan'], extra=case['extra'], seg=case.get('seg'))


# ------------------------------------------------------------------ generators
def decorate(rng, m, lmtp, i):
    """a concrete call for letter m"""
    if m == 'hello':
        verb = 'lhlo' if lmtp else 'ehlo'
        if rng.random() < 0.04:
            verb = 'ehlo' if lmtp else 'lhlo'
        arg = 'client.example.com' if rng.random() < 0.93 else 'cliént'
        return dict(m='hello', verb=verb, arg=arg)
    if m == 'helo':
        return dict(m='helo', arg='client.example.com' if rng.random() < 0.9 else 'é')
    if m == 'mailfrom':
        r = rng.random()
        addr = rng.choice(ADDR_OK) if r < 0.8 else (rng.choice(ADDR_BAD) if r < 0.97 else rng.choice(ADDR_SURR))
        size = rng.choice([None, None, 0, 1234])
        auth = rng.choice([None, None, None, False, 'user@x', 'us er+=', 'usér'])
        return dict(m='mailfrom', addr=addr, size=size, auth=auth)
    if m == 'rcptto':
        r = rng.random()
        addr = rng.choice(ADDR_OK) if r < 0.8 else (rng.choice(ADDR_BAD) if r < 0.97 else rng.choice(ADDR_SURR))
        return dict(m='rcptto', addr='%d%s' % (i, addr))
    if m == 'send_data':
        parts = rng.choice([(b'Subject: x\r\n\r\nbody\r\n',), (b'a\r\n.b', b'\r\n'), (b'',), (), (b'no newline',)])
        return dict(m='send_data', parts=list(parts))
    if m == 'custom':
        cmd, arg = rng.choice([(b'NOOP', None), (b'vrfy', b'bob'), (b'XCMD', b''), (b'ehlo', b'there'), (b'Help', b'me now')])
        return dict(m='custom', cmd=cmd, carg=arg)
    return dict(m=m)


EXTRAS = [b'', b'', b'250 unsolicited\r\n', b'250-part', b'421 4.4.2 timeout\r\n250 more\r\n', b'\r\n', b'garbage']


def make_case(rng, letters, lmtp, pipelining, seg=None, banner=None, force=None):
    ops = []
    if banner if banner is not None else (rng.random() < 0.3):
        ops.append(dict(m='banner'))
    for i, m in enumerate(letters):
        ops.append(decorate(rng, m, lmtp, i))
    if force:
        force(ops)
    exts0 = []
    if pipelining:
        exts0.append('PIPELINING')
    for e in ('SMTPUTF8', 'SIZE', 'AUTH'):
        if rng.random() < 0.2:
            exts0.append(e)
    script, plan = plan_case(rng, lmtp, exts0, ops)
    extra = rng.choice(EXTRAS)
    stream = b''.join(wire_of(r) for r in script) + extra
    seg = seg or rng.choice(['whole', 'lines', 'bytes', 'random'])
    chunks = segmentations(stream, rng, seg)
    return dict(lmtp=lmtp, exts0=exts0, ops=ops, chunks=chunks, script=script, plan=plan, extra=extra, seg=seg)


def classify(case):
    """non-trivial: some reply was deferred (pipelined), multi-line, an encode failure, or an LMTP data with >= 1 recipient"""
    plan = case['plan']
    deferred = any(not p['must_fill'] for p in plan)
    multiline = any(len(r['lines']) > 1 for r in case['script'])
    enc = any(p['expect'] == 'UnicodeEncodeError' for p in plan)
    lm = any(p['expect'] == 'pairs' and p['replies'] for p in plan)
    return deferred, multiline, enc, lm


def note_failure(ctx, key, case, what):
    """keep, per failing-input class, the smallest failing case; reported at the end of run()"""
    best = ctx.extra.setdefault('_c10_failures', {})
    clean = not any(p['expect'] == 'UnicodeEncodeError' for p in case['plan'])
    if key == 'c10:lmtp-data-before-flush':
        rank = 0 if clean else 1
    elif key == 'c10:lmtp-data-after-bad-rcpt-reply':
        rank = 1 if ' holds 0 slot' in what else 0
    else:
        rank = 0 if ' holds (' in what else (1 if 'consequence of' in what else 2)
    if case.get('kind') == 'count':
        size = (rank, len(case['ops']), 0, len(case['script']))
        pub = count_public(case)
    elif case.get('kind') == 'bad':
        size = (rank, 1 if case['lmtp'] else 0, len(case['positions']), len(case['ops']), 0 if case['seg'] == 'whole' else 1)
        pub = bad_public(case)
    else:
        size = (rank, len(case['ops']), len(case['chunks']), len(case['script']))
        pub = public_case(case)
    ctx.count('oracle-failures:' + key)
    if key not in best or size < best[key][0]:
        best[key] = (size, pub, what)


def run_cases(ctx, cases, judge=True):
    outs = ctx.model.batch('c10_run', [model_input(c) for c in cases])
    for case, out in zip(cases, outs):
        trace, registry, returned = run_impl(case)
        mt = model_trace(out)
        deferred, multiline, enc, lm = classify(case)
        ctx.evaluated((case['lmtp'], tuple(case['exts0']), repr(case['ops']), repr(case['script']), case['seg'], len(case['chunks'])),
                      nontrivial=(deferred or multiline or enc or lm))
        ctx.count('len:%d' % len(case['ops']))
        ctx.count('seg:%s' % case['seg'])
        ctx.count('lmtp' if case['lmtp'] else 'smtp')
        if deferred: ctx.count('has-deferred-reply')
        if multiline: ctx.count('has-multiline-reply')
        if enc: ctx.count('has-encode-failure')
        if lm: ctx.count('has-lmtp-data-replies')
        for r in case['script']:
            ctx.count('code-class:%s' % r['code'][0])
        def mask(r, s):
            # after ConnectionLost the io buffers are outside the model
            return (r, s[:5] + (None, None) + s[7:]) if r == (2, 6) else (r, s)
        it = [mask(r, s) for r, s, _ in trace]
        mt = [mask(r, s) for r, s in mt]
        if it != mt[:len(it)] or len(it) != len(mt):
            k = 0
            while k < min(len(it), len(mt)) and it[k] == mt[k]:
                k += 1
            ctx.mismatch('trace', public_case(case), dict(step=k, impl=it[k] if k < len(it) else None),
                         dict(step=k, model=mt[k] if k < len(mt) else None))
        if judge:
            oracle(lambda key, c, what: note_failure(ctx, key, c, what), case, trace, registry, returned)
        ctx.sample(dict(lmtp=case['lmtp'], exts0=case['exts0'], ops=case['ops'], script=case['script'],
                        chunks=case['chunks'][:6], seg=case['seg']), cap=4)


def stream_exhaustive(ctx, maxlen, maxlen1, sample_lens, n_sample):
    rng = ctx.rng
    cases = []
    total = 0
    for L in range(1, maxlen1 + 1):
        for letters in itertools.product(ALPHABET, repeat=L):
            total += 1
            if L <= maxlen:
                for lmtp in (False, True):
                    for pipelining in (False, True):
                        cases.append(make_case(rng, letters, lmtp, pipelining))
            else:
                cases.append(make_case(rng, letters, rng.random() < 0.5, rng.random() < 0.6))
            if len(cases) >= 4000:
                run_cases(ctx, cases); cases = []
    run_cases(ctx, cases); cases = []
    for L in sample_lens:
        for _ in range(n_sample):
            letters = [rng.choice(ALPHABET + ['rcptto', 'rcptto', 'helo']) for _ in range(L)]
            cases.append(make_case(rng, letters, rng.random() < 0.5, rng.random() < 0.6))
            if len(cases) >= 4000:
                run_cases(ctx, cases); cases = []
    run_cases(ctx, cases)
    ctx.extra['exhaustive'] = True
    ctx.extra['exhaustive_bound'] = ('every method sequence of length 1..%d over %s (%d sequences); those up to length %d each as SMTP and '
                                     'LMTP client x PIPELINING pre-advertised or not, the longer ones with one random choice of the two '
                                     '(reply codes, line counts, addresses, segmentation drawn at random per case); '
                                     'plus %d random sequences of each length in %s') % (maxlen1, ALPHABET, total, maxlen, n_sample, list(sample_lens))


def stream_targeted(ctx):
    """the two call patterns of D21/D22, exhaustively over small choices (independent of the seed's luck)"""
    rng = ctx.rng
    cases = []
    # D21: a non-encodable address/identifier in front of / between good commands
    for lmtp in (False, True):
        for pipelining in (False, True):
            for utf8 in (False, True):
                for pat in itertools.product('gb', repeat=3):        # mail, rcpt1, rcpt2: good / bad address
                    for tail in (['data'], ['rset'], ['data', 'send_data'], ['quit']):
                        for seg in ('whole', 'bytes', 'lines'):
                            letters = ['hello', 'mailfrom', 'rcptto', 'rcptto'] + tail

                            def force(ops, pat=pat, utf8=utf8):
                                base = 1 if ops[0]['m'] == 'banner' else 0
                                ops[base]['arg'] = 'client.example.com'
                                if lmtp != (ops[base].get('verb') == 'lhlo'):
                                    ops[base]['verb'] = 'lhlo' if lmtp else 'ehlo'
                                for k, ch in enumerate(pat):
                                    o = ops[base + 1 + k]
                                    o['addr'] = ('%d' % k) + (ADDR_BAD[k] if ch == 'b' else ADDR_OK[k])
                                    if o['m'] == 'mailfrom':
                                        o['auth'] = None
                            c = make_case(rng, letters, lmtp, pipelining, seg=seg, force=force)
                            cases.append(c)
    # hello with a non-ASCII identifier, then a normal conversation
    for lmtp in (False, True):
        for pipelining in (False, True):
            def force2(ops):
                base = 1 if ops[0]['m'] == 'banner' else 0
                ops[base]['arg'] = 'cliént'
                ops[base]['verb'] = 'lhlo' if lmtp else 'ehlo'
                ops[base + 1]['arg'] = 'client.example.com'
                ops[base + 1]['verb'] = 'lhlo' if lmtp else 'ehlo'
                ops[base + 2]['addr'] = 'a@example.com'; ops[base + 2]['auth'] = None
            c = make_case(rng, ['hello', 'hello', 'mailfrom', 'data'], lmtp, pipelining, force=force2)
            cases.append(c)
    # D22: LMTP end-of-data called while RCPT replies are still pipelined
    for n in (1, 2, 3):
        for classes in itertools.product([2, 5, 4], repeat=n):
            for tail in (['send_data'], ['send_empty_data'], ['send_data', 'quit'], ['send_empty_data', 'rset']):
                for seg in ('whole', 'bytes'):
                    letters = ['hello', 'mailfrom'] + ['rcptto'] * n + tail

                    def force3(ops, classes=classes):
                        base = 1 if ops[0]['m'] == 'banner' else 0
                        ops[base].update(arg='client.example.com', verb='lhlo', cls=2, kw=['PIPELINING', '8BITMIME'])
                        ops[base + 1].update(addr='a@example.com', auth=None, cls=2)
                        for k, cl in enumerate(classes):
                            ops[base + 2 + k].update(addr='%d@example.org' % k, cls=cl)
                    c = make_case(rng, letters, True, True, seg=seg, force=force3)
                    cases.append(c)
    run_cases(ctx, cases)
    ctx.count('targeted-cases', len(cases))


# ------------------------------------------------------------------ the COUNT dimension
# Pipelined groups of n recipients against a COMMAND-DRIVEN server: a reply becomes readable only
# after the bytes of the command it answers have reached the socket (sendall); a recv() at a moment
# when every command received so far has been answered and the answers have been read would block on
# a real connection - the fake socket raises ReadPastOwed and the case fails with c10:overread.
COUNTS = [1, 2, 3, 50, 98, 99, 100, 101, 128, 250, 1000]


class ReadPastOwed(Exception):
    pass


class DrivenSock(object):
    def __init__(self, groups, script, mode, rnd, banner):
        self.groups = list(groups)        # per reply-owing event, in order: the script indexes it releases
        self.script = script
        self.wires = [wire_of(r) for r in script]
        self.mode, self.rnd = mode, rnd
        self.avail = b''
        self.inbuf = b''
        self.in_data = False
        self.sends = []
        self.chunks_out = []              # what recv() returned, in order (input of the model run)
        self.released = 0                 # replies made readable so far
        self.commands = 0                 # command lines / end-of-data markers received
        self.unexpected = []
        self.past_owed = 0
        if banner:
            self._release(b'[connect]')

    def fileno(self):
        return -1

    def getpeername(self):
        return ('192.0.2.1', 25)

    def close(self):
        pass

    def _release(self, line):
        if not self.groups:
            self.unexpected.append(line)
            return []
        g = self.groups.pop(0)
        for si in g:
            self.avail += self.wires[si]
            self.released += 1
        return g

    def sendall(self, data):
        self.sends.append(bytes(data))
        self.inbuf += bytes(data)
        while b'\r\n' in self.inbuf:
            line, self.inbuf = self.inbuf.split(b'\r\n', 1)
            if self.in_data:
                if line == b'.':
                    self.in_data = False
                    self.commands += 1
                    self._release(line)
                continue
            self.commands += 1
            g = self._release(line)
            if line.upper() == b'DATA' and g and self.script[g[0]]['code'][0] == '3':
                self.in_data = True

    def recv(self, n=4096):
        if not self.avail:
            self.past_owed += 1
            raise ReadPastOwed()
        a = self.avail
        if self.mode == 'whole':
            k = len(a)
        elif self.mode == 'bytes':
            k = 1
        elif self.mode == 'lines':
            k = a.find(b'\n') + 1 or len(a)
        elif self.mode == 'small':
            k = self.rnd.randint(1, min(len(a), 7))
        else:
            k = self.rnd.randint(1, min(len(a), 700))
        k = min(k, n)
        ret, self.avail = a[:k], a[k:]
        self.chunks_out.append(ret)
        return ret


def count_case(seed, n, lmtp, pipelining, seg):
    """everything about a count case is regenerated from (seed, n, lmtp, pipelining, seg)"""
    rng = random.Random(seed)
    ops = []
    if rng.random() < 0.5:
        ops.append(dict(m='banner'))
    ops.append(dict(m='hello', verb='lhlo' if lmtp else 'ehlo', arg='client.example.com', cls=2,
                    kw=(['PIPELINING', '8BITMIME'] if pipelining else ['8BITMIME'])))
    ops.append(dict(m='mailfrom', addr='sender@example.com', size=None, auth=None))
    for k in range(n):
        ops.append(dict(m='rcptto', addr='rcpt%d@example.org' % k))
    ops.append(dict(m='data', cls=3))
    ops.append(dict(m='send_data', parts=[b'Subject: x\r\n\r\n', b'.body\r\n']))
    ops.append(dict(m='rset'))
    ops.append(dict(m='quit'))
    script, plan = plan_case(rng, lmtp, [], ops)
    return dict(kind='count', seed=seed, n=n, lmtp=lmtp, pipelining=pipelining, seg=seg,
                exts0=[], ops=ops, script=script, plan=plan, sockseed=rng.randrange(1 << 30))


def count_public(case):
    return dict(kind='count', seed=case['seed'], n=case['n'], lmtp=case['lmtp'],
                pipelining=case['pipelining'], seg=case['seg'])


def state_snapshot(client, sends, registry, idx, nchunks, dead):
    return (
        tuple((o.command or b'', o.code or '', (o.message or '') if o.code else '', o.enhanced_status_code) for o in registry),
        tuple(idx(o) for o in client.reply_queue),
        client.io.send_buffer.getvalue(),
        tuple(sends),
        tuple(sorted(client.extensions.extensions.keys())),
        client.io.recv_buffer,
        nchunks,
        tuple((a, idx(o)) for a, o in getattr(client, 'rcpttos', [])),
        None if client.last_error is None else idx(client.last_error),
        dead,
    )


def run_count(report, case, verbose=None):
    """The conversation on the real client against the command-driven server, judged call by call
    (linear in n: every object is checked once, when it is first seen filled).
    -> (ok, results, final snapshot, chunks the socket handed out)"""
    ops, plan, script = case['ops'], case['plan'], case['script']
    registry = []
    ids = {}

    class RecReply(Reply):
        def __init__(self, *a, **k):
            Reply.__init__(self, *a, **k)
            ids[id(self)] = len(registry)
            registry.append(self)

    def idx(o):
        return ids.get(id(o), 9999)

    groups = [p['replies'] for p in plan if p['expect'] in ('reply', 'pairs')]
    banner = bool(ops and ops[0]['m'] == 'banner')
    sock = DrivenSock(groups, script, case['seg'], random.Random(case['sockseed']), banner)
    wlen = [0]
    for w in sock.wires:
        wlen.append(wlen[-1] + len(w))
    order = []          # (object, script index, kind, call index) in the order the server owes them
    nfilled = 0
    results = []
    ok = True

    def fail(key, i, what):
        report(key, case, 'n=%d %s PIPELINING=%s, call %d (%s): %s' % (
            case['n'], 'LMTP' if case['lmtp'] else 'SMTP', case['pipelining'], i, ops[i]['m'], what))
        return False

    saved = CM.Reply
    CM.Reply = RecReply
    try:
        client = (LmtpClient if case['lmtp'] else Client)(sock, ('192.0.2.1', 25))
        for i, op in enumerate(ops):
            p = plan[i]
            try:
                res = call_op(client, op)
            except ReadPastOwed:
                results.append((2, 9))
                ok = fail('c10:overread', i,
                          'the client called recv() while it was owed nothing: %d commands have reached the server, all %d '
                          'replies to them were released and %d read; this call\'s own command is not on the wire (reply_queue holds '
                          '%d more slot(s), %d bytes wait in the send buffer) - on a real connection this read blocks' % (
                              sock.commands, sock.released, nfilled_now(order, nfilled), len(client.reply_queue),
                              len(client.io.send_buffer.getvalue())))
                break
            except Exception as e:
                results.append((2, 8))
                ok = fail('c10:outcome', i, 'raised %s: %s' % (type(e).__name__, e))
                break
            if p['expect'] == 'pairs':
                if not isinstance(res, list):
                    ok = fail('c10:lmtp-outcome', i, 'expected [(address, Reply)...], got %r' % (res,)); break
                results.append((1, tuple((a, idx(o)) for a, o in res)))
                if [a for a, _ in res] != p['accepted']:
                    ok = fail('c10:lmtp-pairing', i, 'end-of-data replies for %d recipients %r..., accepted were %d %r...' % (
                        len(res), [a for a, _ in res][:3], len(p['accepted']), p['accepted'][:3])); break
                for (a, o), si in zip(res, p['replies']):
                    order.append((o, si, 'plain', i))
            else:
                if isinstance(res, list) or res is None:
                    ok = fail('c10:outcome', i, 'expected a Reply, got %r' % (res,)); break
                results.append((0, idx(res)))
                if res.command != expected_command(op, case['lmtp']):
                    ok = fail('c10:command', i, 'Reply.command %r' % (res.command,)); break
                order.append((res, p['replies'][0], p['kind'], i))
            # newly filled objects: each must hold its own reply; filled ones form a prefix
            while nfilled < len(order) and order[nfilled][0].code is not None:
                o, si, kind, ci = order[nfilled]
                want = ref_message(kind, script[si])
                if o.code != script[si]['code'] or o.message != want or TOKEN.findall(o.message or '') != own_tokens(kind, script[si]):
                    ok = fail('c10:mispaired', i, 'Reply of call %d (%s) holds (%r, %r); the server answered that call with (%r, %r)' % (
                        ci, ops[ci]['m'], o.code, o.message, script[si]['code'], want))
                    break
                nfilled += 1
            if not ok:
                break
            if nfilled < len(order) and order[-1][0].code is not None:
                ok = fail('c10:order', i, 'the newest reply is filled while reply %d is not' % nfilled); break
            if p['must_fill'] and nfilled != len(order):
                ok = fail('c10:not-filled', i, '%d of %d replies filled after a flushing call' % (nfilled, len(order))); break
            # bytes: released and not yet parsed = replies nfilled..released-1, nothing else
            unread = len(client.io.recv_buffer) + len(sock.avail)
            if unread != wlen[sock.released] - wlen[nfilled]:
                ok = fail('c10:overread', i, '%d unread bytes, expected %d (replies released %d, read %d)' % (
                    unread, wlen[sock.released] - wlen[nfilled], sock.released, nfilled)); break
            if len(client.reply_queue) != len(order) - nfilled:
                ok = fail('c10:orphan-slot', i, 'reply_queue holds %d objects, %d replies are owed' % (
                    len(client.reply_queue), len(order) - nfilled)); break
            if verbose and (i < 4 or i >= len(ops) - 5 or not ok):
                verbose('call %d %-16s -> %s | replies filled %d/%d, released by server %d, queue %d' % (
                    i, op['m'] + (' ' + op.get('addr', '') if op['m'] == 'rcptto' else ''),
                    results[-1], nfilled, len(order), sock.released, len(client.reply_queue)))
        if ok:
            if sock.unexpected or sock.groups or sock.avail or client.io.recv_buffer:
                ok = fail('c10:overread', len(ops) - 1, 'conversation over: %d unexpected command lines %r, %d reply groups never '
                          'triggered, %d bytes unread' % (len(sock.unexpected), sock.unexpected[:2], len(sock.groups),
                                                          len(sock.avail) + len(client.io.recv_buffer)))
            elif nfilled != len(order):
                ok = fail('c10:not-filled', len(ops) - 1, '%d of %d replies filled at the end' % (nfilled, len(order)))
        snap = state_snapshot(client, sock.sends, registry, idx, 0, 0)
        return ok, tuple(results), snap, list(sock.chunks_out)
    finally:
        CM.Reply = saved


def nfilled_now(order, nfilled):
    while nfilled < len(order) and order[nfilled][0].code is not None:
        nfilled += 1
    return nfilled


def model_final(out):
    res, st = out
    rs = []
    for r in res:
        if r[0] == 0:
            rs.append((0, r[1]))
        elif r[0] == 1:
            rs.append((1, tuple((U(a), i) for a, i in r[1])))
        else:
            rs.append((2, r[1]))
    return tuple(rs), model_trace([((2, 0), st)])[0][1]


# ------------------------------------------------------------------ undecodable replies, conversation goes on
# A reply whose text is not UTF-8 costs the call that reads it a BadReply - and nothing else: the
# reply is consumed, its slot stays empty, every later Reply still gets its own reply.
BAD_TEXTS = [b'Empf\xe4nger unbekannt',        # ISO-8859-1
             b'caf\xc3',                        # truncated two-byte sequence
             b'\x80abc', b'ok \xbf',            # lone continuation bytes
             b'\xc0\xaf', b'\xe0\x80\xaf',       # overlongs
             b'\xed\xa0\x80',                   # UTF-8 encoded surrogate
             b'\xff', b'\xf8\x88\x80\x80\x80', b'\xe2\x82']


def plan_bad(seed, lmtp, pipelining, nrcpt, positions):
    """Reference semantics of the conversation (independent of the model): which reply each call
    owns, which call reads which replies, which call raises BadReply.  One pass: the replies are
    drawn while the calls are simulated."""
    rng = random.Random(seed)
    ops = []
    if rng.random() < 0.5:
        ops.append(dict(m='banner'))
    ops.append(dict(m='hello', verb='lhlo' if lmtp else 'ehlo', arg='client.example.com'))
    ops.append(dict(m='mailfrom', addr='sender@example.com', size=None, auth=None))
    for k in range(nrcpt):
        ops.append(dict(m='rcptto', addr='rcpt%d@example.org' % k))
    ops += [dict(m='data'), dict(m='send_data', parts=[b'Subject: x\r\n\r\n', b'body\r\n']), dict(m='rset'),
            dict(m='mailfrom', addr='again@example.com', size=None, auth=None), dict(m='rcptto', addr='last@example.org'),
            dict(m='quit')]
    script, plan, groups = [], [], []
    owed, bad, popped, filled = [], set(), [], []
    kind_of = {}
    exts = set()
    txn = []

    def alloc(i, j=None, hello=False, cls=None, kw=None):
        s_ = len(script)
        r = gen_reply(rng, i, j, hello=hello, cls=cls, kw=kw)
        if s_ in positions:
            raw = [l.encode('utf-8') for l in r['lines']]
            raw[rng.randrange(len(raw))] = rng.choice(BAD_TEXTS)
            r['raw'] = raw
            bad.add(s_)
        script.append(r)
        owed.append(s_)
        kind_of[s_] = 'plain'
        return s_

    def flush():
        while owed:
            s_ = owed.pop(0)
            popped.append(s_)
            if s_ in bad:
                return True
            filled.append(s_)
        return False

    for i, op in enumerate(ops):
        m = op['m']
        p = dict(expect='reply', own=[], sent=True)
        if lmtp and m == 'send_data':
            if flush():
                # raised before the content was sent while the server waits for content: a caller cannot go on
                # with commands from here (they would be taken as message text); the conversation ends
                p.update(expect='BadReply', sent=False, filled=list(filled), npopped=len(popped), owed=len(owed),
                         kinds=dict(kind_of))
                plan.append(p)
                ops = ops[:i + 1]
                break
            else:
                # a recipient whose RCPT reply was a BadReply (never filled) is not an accepted recipient
                acc = [(a, si) for a, si in txn if si not in bad and script[si]['code'][0] == '2']
                p['unanswered'] = [a for a, si in txn if si in bad]
                p['accepted'] = [a for a, si in acc]
                p['own'] = [alloc(i, j) for j in range(len(acc))]
                groups.append(list(p['own']))
                txn = []
                p['expect'] = 'pairs'
                if 'PIPELINING' not in exts and flush():
                    p['expect'] = 'BadReply'
        else:
            hello = (m == 'hello')
            own = alloc(i, hello=hello, cls=(3 if m == 'data' else (2 if hello else None)),
                        kw=((['PIPELINING', '8BITMIME'] if pipelining else ['8BITMIME']) if hello else None))
            p['own'] = [own]
            if m in ('banner', 'hello'):
                kind_of[own] = 'noesc'
            groups.append([own])
            must = m in ('banner', 'hello', 'data', 'rset', 'quit') or 'PIPELINING' not in exts
            if must and flush():
                p['expect'] = 'BadReply'
            elif hello:
                kind_of[own] = 'hello'
                if script[own]['code'] == '250':
                    exts = ext_names(script[own])
                    if lmtp:
                        txn = []
            if p['expect'] == 'reply':
                if m == 'rcptto' and lmtp:
                    txn.append((op['addr'], own))
                if m == 'rset' and lmtp:
                    txn = []
        p.update(filled=list(filled), npopped=len(popped), owed=len(owed), kinds=dict(kind_of))
        plan.append(p)
    return ops, script, plan, groups, sorted(bad)


def bad_case(seed, lmtp, pipelining, seg, nrcpt, positions):
    ops, script, plan, groups, bad = plan_bad(seed, lmtp, pipelining, nrcpt, set(positions))
    return dict(kind='bad', seed=seed, lmtp=lmtp, pipelining=pipelining, seg=seg, nrcpt=nrcpt, positions=list(positions),
                exts0=[], ops=ops, script=script, plan=plan, groups=groups, bad=bad, chunks=[])


def bad_public(case):
    return dict(kind='bad', seed=case['seed'], lmtp=case['lmtp'], pipelining=case['pipelining'], seg=case['seg'],
                nrcpt=case['nrcpt'], positions=case['positions'])


def run_bad(report, case, verbose=None):
    """-> (ok, results, final snapshot, chunks handed out, calls executed)"""
    ops, plan, script = case['ops'], case['plan'], case['script']
    registry = []
    ids = {}

    class RecReply(Reply):
        def __init__(self, *a, **k):
            Reply.__init__(self, *a, **k)
            ids[id(self)] = len(registry)
            registry.append(self)

    def idx(o):
        return ids.get(id(o), 9999)

    banner = bool(ops and ops[0]['m'] == 'banner')
    groups = list(case['groups'])
    if banner:
        groups = groups       # the banner's group is the first one: released at connect
    sock = DrivenSock(groups, script, case['seg'], random.Random(case['seed'] ^ 0x5bd1e995), banner)
    wlen = [0]
    for w in sock.wires:
        wlen.append(wlen[-1] + len(w))
    results = []
    checked = set()
    first_bad = None
    ok = True

    def fail(key, i, what):
        report(key, case, '%s PIPELINING=%s, undecodable replies at %s, call %d (%s): %s' % (
            'LMTP' if case['lmtp'] else 'SMTP', case['pipelining'], case['bad'], i, ops[i]['m'], what))
        return False

    saved = CM.Reply
    CM.Reply = RecReply
    executed = 0
    try:
        client = (LmtpClient if case['lmtp'] else Client)(sock, ('192.0.2.1', 25))
        for i, op in enumerate(ops):
            p = plan[i]
            executed = i + 1
            try:
                res = call_op(client, op)
                got = 'pairs' if isinstance(res, list) else 'reply'
            except ReadPastOwed:
                res, got = None, 'ReadPastOwed'
            except BadReply as e:
                res, got = None, 'BadReply'
                exc_text = str(e)
            except AttributeError as e:
                res, got = None, 'AttributeError'
            except Exception as e:
                res, got = None, type(e).__name__
            code = {'reply': 0, 'pairs': 1, 'BadReply': 2, 'AttributeError': 2}.get(got, 2)
            results.append((0, idx(res)) if got == 'reply' else ((1, tuple((a, idx(o)) for a, o in res)) if got == 'pairs'
                           else (2, {'BadReply': 4, 'AttributeError': 3}.get(got, 8))))
            if got == 'ReadPastOwed':
                ok = fail('c10:overread', i, 'the client called recv() while it was owed nothing (%d commands reached the server, '
                          '%d replies released)' % (sock.commands, sock.released)); break
            if got == 'AttributeError' and p.get('unanswered'):
                ok = fail('c10:lmtp-data-after-bad-rcpt-reply', i,
                          'AttributeError (code is None) instead of the end-of-data replies for %r: the RCPT reply of %r was a '
                          'BadReply; reply_queue now holds %d slot(s) for which nothing was sent, the recipient list still has %d '
                          'entries' % (p['accepted'], p['unanswered'], len(client.reply_queue) - p['owed'] + len(p['own']),
                                       len(client.rcpttos))); break
            if got != p['expect']:
                if got == 'BadReply' and first_bad is not None:
                    ok = fail('c10:bad-reply-not-consumed', i,
                              'raised BadReply again (%r) although the undecodable reply had already cost call %d its BadReply: '
                              'it was not taken out of recv_buffer, so this call never gets its own reply (expected %s)' % (
                                  exc_text[-60:], first_bad, p['expect']))
                else:
                    ok = fail('c10:outcome', i, 'expected %s, got %s' % (p['expect'], got))
                break
            if got == 'BadReply' and first_bad is None:
                first_bad = i
            if got == 'reply' and (idx(res) != p['own'][0] or res.command != expected_command(op, case['lmtp'])):
                ok = fail('c10:command', i, 'returned object %d (%r), its own is %d' % (idx(res), res.command, p['own'][0])); break
            if got == 'pairs':
                if [a for a, _ in res] != p['accepted'] or [idx(o) for _, o in res] != p['own']:
                    ok = fail('c10:lmtp-pairing', i, 'end-of-data replies %r, accepted recipients were %r (objects %r)' % (
                        [(a, idx(o)) for a, o in res], p['accepted'], p['own'])); break
            # every object: filled iff the reference says so, and then with its own reply
            want_filled = set(p['filled'])
            for j, o in enumerate(registry):
                if (o.code is not None) != (j in want_filled):
                    ok = fail('c10:mispaired' if o.code is not None else 'c10:not-filled', i,
                              'reply object %d (%s) is %s, the server\'s reply %d %s' % (
                                  j, o.command, 'filled with (%r, %r)' % (o.code, o.message) if o.code is not None else 'empty',
                                  j, 'was undecodable / is not read yet' if j not in want_filled else
                                  'is (%r, %r)' % (script[j]['code'], script[j]['lines'])))
                    break
                if o.code is not None and j not in checked:
                    kind = p['kinds'].get(j, 'plain')
                    want = ref_message(kind, script[j])
                    if o.code != script[j]['code'] or o.message != want or TOKEN.findall(o.message or '') != own_tokens(kind, script[j]):
                        if kind == 'hello' or j == len(registry) - 1 or True:
                            ok = fail('c10:mispaired', i, 'reply object %d (%s) holds (%r, %r); the server answered it with (%r, %r)' % (
                                j, o.command, o.code, o.message, script[j]['code'], want))
                            break
                    if kind != 'noesc' or j < len(registry):
                        checked.add(j)
            if not ok:
                break
            # a hello that returned is re-checked once (its message is replaced after the fill)
            unread = len(client.io.recv_buffer) + len(sock.avail)
            if unread != wlen[sock.released] - wlen[p['npopped']]:
                if got == 'BadReply' and unread > wlen[sock.released] - wlen[p['npopped']]:
                    ok = fail('c10:bad-reply-not-consumed', i,
                              'BadReply raised for the undecodable reply %d, but %d bytes of it are still at the head of recv_buffer '
                              '(%r...): every later call will meet it again instead of its own reply' % (
                                  p['npopped'] - 1, unread - (wlen[sock.released] - wlen[p['npopped']]), client.io.recv_buffer[:40]))
                else:
                    ok = fail('c10:overread', i, '%d unread bytes, expected %d (replies released %d, consumed %d)' % (
                        unread, wlen[sock.released] - wlen[p['npopped']], sock.released, p['npopped']))
                break
            if len(client.reply_queue) != p['owed']:
                ok = fail('c10:orphan-slot', i, 'reply_queue holds %d objects, %d replies are owed' % (
                    len(client.reply_queue), p['owed'])); break
            if verbose:
                verbose('call %d %-10s -> %-14s | filled %s, queue %d, unread %d' % (
                    i, op['m'], got, sorted(want_filled), len(client.reply_queue), unread))
        snap = state_snapshot(client, sock.sends, registry, idx, 0, 0)
        return ok, tuple(results), snap, list(sock.chunks_out), executed
    finally:
        CM.Reply = saved


def stream_bad(ctx):
    rng = ctx.rng
    cases = []
    segs = ['whole', 'small', 'bytes', 'lines']
    k = 0
    for lmtp in (False, True):
        for pipelining in (True, False):
            nrcpt = 3
            nev = 14                      # upper bound on the number of scripted replies of this conversation
            singles = [[q] for q in range(nev)]
            doubles = [sorted(rng.sample(range(nev), 2)) for _ in range(4 if ctx.quick else 12)]
            for pos in singles + doubles:
                for rep_ in range(1 if ctx.quick else 3):
                    cases.append(bad_case(rng.randrange(1 << 31), lmtp, pipelining, segs[k % 4], nrcpt, pos))
                    k += 1
    good = []
    for case in cases:
        ok, results, snap, chunks, executed = run_bad(lambda key, c, what: note_failure(ctx, key, c, what), case)
        ctx.evaluated(('bad', case['lmtp'], case['pipelining'], case['seg'], tuple(case['positions']), case['seed']),
                      nontrivial=bool(case['bad']))
        ctx.count('bad-reply:cases')
        ctx.count('bad-reply:%d-undecodable' % len(case['bad']))
        if any(p['expect'] == 'BadReply' for p in case['plan']):
            ctx.count('bad-reply:continues-after-BadReply')
        good.append((case, results, snap, chunks, executed))
    # correspondence: the model on the chunks handed out ends in the same state (also after the known finding)
    outs = ctx.model.batch('c10_final', [[1 if c['lmtp'] else 0, [], ch, [enc_op(o) for o in c['ops'][:ex]]]
                                         for c, _, _, ch, ex in good])
    for (case, results, snap, chunks, executed), out in zip(good, outs):
        mres, msnap = model_final(out)
        if (results, snap) != (mres, msnap):
            diff = [j for j in range(len(snap)) if snap[j] != msnap[j]]
            ctx.mismatch('bad-reply-final', bad_public(case),
                         dict(results=results, fields_differing=diff, impl=[repr(snap[j])[:300] for j in diff]),
                         dict(results=mres, model=[repr(msnap[j])[:300] for j in diff]))
    ctx.sample(dict(kind='bad', texts=BAD_TEXTS[:4], example=bad_public(cases[0])), cap=6)


def stream_count(ctx):
    rng = ctx.rng
    segs = ['whole', 'lines', 'random']
    reps = 1 if ctx.quick else 3
    cases = []
    k = 0
    for n in COUNTS:
        for lmtp in (False, True):
            for pipelining in (True, False):
                for _ in range(reps):
                    seg = segs[k % 3] if (n > 128 or k % 5) else 'bytes'
                    k += 1
                    cases.append(count_case(rng.randrange(1 << 31), n, lmtp, pipelining, seg))
    good = []
    for case in cases:
        ok, results, snap, chunks = run_count(lambda key, c, what: note_failure(ctx, key, c, what), case)
        ctx.evaluated(('count', case['n'], case['lmtp'], case['pipelining'], case['seg'], case['seed']), nontrivial=True)
        ctx.count('count:n=%d' % case['n'])
        ctx.count('count-seg:%s' % case['seg'])
        if ok:
            good.append((case, results, snap, chunks))
    # correspondence: the model on the chunks the socket handed out must end in the same state
    # (and must have needed exactly those chunks: none left, same recv_buffer)
    outs = ctx.model.batch('c10_final', [[1 if c['lmtp'] else 0, [], ch, [enc_op(o) for o in c['ops']]] for c, _, _, ch in good])
    for (case, results, snap, chunks), out in zip(good, outs):
        mres, msnap = model_final(out)
        if (results, snap) != (mres, msnap):
            diff = [j for j in range(len(snap)) if snap[j] != msnap[j]]
            ctx.mismatch('count-final', count_public(case),
                         dict(results_equal=(results == mres), fields_differing=diff, impl=[repr(snap[j])[:300] for j in diff]),
                         dict(model=[repr(msnap[j])[:300] for j in diff]))
    ctx.sample(dict(kind='count', counts=COUNTS, example=count_public(cases[-1])), cap=5)
    ctx.count('count-cases', len(cases))


MALFORMED = [b'600 bad code\r\n', b'25x nope\r\n', b'250-a\r\n550 b\r\n', b'\r\n', b'250 \xff\r\n', b'250-unfinished\r\n',
             b'250 ok', b'', b'099 low\r\n', b'250-a\r\n\r\n250 b\r\n']


def stream_malformed(ctx, n):
    """correspondence only (the property speaks of well-formed reply scripts): BadReply / ValueError /
    ConnectionLost in the middle of a pipeline, and what the client does afterwards"""
    rng = ctx.rng
    cases = []
    for _ in range(n):
        L = rng.randrange(2, 7)
        letters = [rng.choice(ALPHABET + ['rcptto', 'helo']) for _ in range(L)]
        c = make_case(rng, letters, rng.random() < 0.5, rng.random() < 0.6)
        wires = [wire_of(r) for r in c['script']]
        k = rng.randrange(0, len(wires) + 1)
        mode = rng.random()
        if mode < 0.6:
            wires.insert(k, rng.choice(MALFORMED))
            stream = b''.join(wires) + c['extra']
        elif mode < 0.8:
            stream = b''.join(wires)[:rng.randrange(0, len(b''.join(wires)) + 1)]
        else:
            stream = b''.join(wires[:k])
        c['chunks'] = segmentations(stream, rng, c['seg'])
        c['malformed'] = True
        cases.append(c)
    run_cases(ctx, cases, judge=False)
    ctx.count('malformed-cases', n)


def stream_parse_string(ctx, n):
    """Extensions.parse_string against the model's parse_string on its own"""
    from slimta.smtp.extensions import Extensions
    rng = ctx.rng
    pieces = KEYWORDS + ['hello', '\r\n', '\n', '\r', ' ', '\t', '\x0b', '\xa0', ' ', 'A-B', '-x', '9z', 'café', 'X Y  Z ', '\x1c']
    texts = []
    for _ in range(n):
        texts.append(''.join(rng.choice(pieces) + rng.choice(['\r\n', '\r\n', '\n', '']) for _ in range(rng.randrange(0, 6))))
    outs = ctx.model.batch('c10_parse_string', texts)
    for t, o in zip(texts, outs):
        e = Extensions()
        hdr = e.parse_string(t)
        got = (hdr, tuple(sorted(e.extensions.keys())))
        mod = (U(o[0]), tuple(sorted(set(U(x) for x in o[1]))))
        ctx.evaluated(('ps', t), nontrivial=('\n' in t))
        if got != mod:
            ctx.mismatch('parse_string', dict(text=t), got, mod)
    ctx.count('parse-string-cases', n)


def run(ctx):
    ctx.extra['rule'] = (
        'exhaustive: every method sequence up to the stated length over {hello(ehlo/lhlo), mailfrom, rcptto, data, send_data, '
        'send_empty_data, rset, quit, custom} x {Client, LmtpClient} x {PIPELINING pre-advertised or not}, optionally preceded by '
        'get_banner; per case random reply code class (2/3/4/5, rarely 1), 1-3 lines (EHLO: 1-4 with extension keywords that switch '
        'PIPELINING/SMTPUTF8/SIZE/AUTH), ESC-looking prefixes, ASCII / non-ASCII / surrogate addresses, pipelined extra bytes after '
        'the last owed reply, segmentation whole/per line/per byte/random; longer sequences sampled; targeted: the D21/D22 call '
        'patterns over all small choices; count: EHLO/LHLO, MAIL, RCPT x n, DATA, content, RSET, QUIT for n in '
        '{1,2,3,50,98,99,100,101,128,250,1000} x {Client, LmtpClient} x {PIPELINING on, off} against a command-driven server '
        '(a reply is readable only once its command has reached the socket; recv() while owed nothing = c10:overread), random '
        'reply classes/lines, segmentation whole/per line/per byte/random, final state compared with the model run on the chunks '
        'handed out; undecodable replies: the same kind of conversation (two transactions) with the text of the reply at each '
        'position (and some pairs of positions) replaced by ISO-8859-1 / truncated / lone-continuation / overlong / surrogate bytes, '
        'the caller going on after the BadReply: judged against a reference of which call reads which reply (every other Reply '
        'holds its own reply, the bad reply\'s slot stays empty, bytes consumed exactly, no recv() while owed nothing); malformed (correspondence only): a bad reply / truncation inserted at a random point. '
        'Compared after every call: every Reply object created so far (command, code, message, enhanced status code), reply_queue, '
        'send buffer, sendall() payloads, extension names, recv_buffer, chunks left, LMTP rcpttos, last_error. '
        'Non-trivial = at least one deferred (pipelined) reply, multi-line reply, encode failure or LMTP end-of-data reply.')
    ctx.extra['trusted_base'] = ['slimta.smtp.reply.Reply is used by the oracle to render the expected message of a scripted reply '
                                 '(C17 judges it); the token check is independent of it']
    stream_parse_string(ctx, 400 if ctx.quick else 5000)
    stream_targeted(ctx)
    stream_count(ctx)
    stream_bad(ctx)
    if ctx.quick:
        stream_exhaustive(ctx, 3, 4, (5, 6), 1500)
    else:
        stream_exhaustive(ctx, 4, 5, (6, 7), 20000)
    stream_malformed(ctx, 1500 if ctx.quick else 20000)
    for key, (size, case, what) in sorted(ctx.extra.pop('_c10_failures', {}).items()):
        ctx.fail(key, case, what)
    ctx.note('not exercised: starttls/encrypt, auth, has_reply_waiting, bytes identifiers for ehlo/helo/lhlo; '
             'behaviour after ConnectionLost is outside the model (the sequence stops there)')


def _unjson(x):
    if isinstance(x, dict):
        if set(x.keys()) == {'hex'}:
            return bytes.fromhex(x['hex'])
        return {k: _unjson(v) for k, v in x.items()}
    if isinstance(x, list):
        return [_unjson(v) for v in x]
    return x


def replay_count(ctx, c):
    case = count_case(c['seed'], c['n'], c['lmtp'], c['pipelining'], c['seg'])
    print('count case: %s, PIPELINING %s, %d recipients, segmentation %s, seed %d (%d calls, %d scripted replies)' % (
        'LmtpClient' if case['lmtp'] else 'Client', 'on' if case['pipelining'] else 'off', case['n'], case['seg'],
        case['seed'], len(case['ops']), len(case['script'])))
    failed = []

    def report(key, cs, what):
        failed.append(key)
        print('ORACLE   : %s: %s' % (key, what))
    ok, results, snap, chunks = run_count(report, case, verbose=lambda s: print('  ' + s))
    if ok and ctx.model:
        mres, msnap = model_final(ctx.model.call('c10_final', [1 if case['lmtp'] else 0, [], chunks, [enc_op(o) for o in case['ops']]]))
        print('model    : final state %s' % ('equal' if (results, snap) == (mres, msnap) else 'DIFFERS'))
    print('oracle   :', 'holds' if ok else 'FAILS')
    return 0 if ok else 1


def replay_bad(ctx, c):
    case = bad_case(c['seed'], c['lmtp'], c['pipelining'], c['seg'], c['nrcpt'], c['positions'])
    print('undecodable-reply case: %s, PIPELINING %s, segmentation %s, seed %d' % (
        'LmtpClient' if case['lmtp'] else 'Client', 'on' if case['pipelining'] else 'off', case['seg'], case['seed']))
    print('calls    :', [o['m'] for o in case['ops']])
    for j, r in enumerate(case['script']):
        print('reply %2d : %s %r%s' % (j, r['code'], r.get('raw') or r['lines'], '   <-- not UTF-8' if j in case['bad'] else ''))

    def report(key, cs, what):
        print('ORACLE   : %s: %s' % (key, what))
    ok, results, snap, chunks, executed = run_bad(report, case, verbose=lambda s: print('  ' + s))
    if ctx.model:
        mres, msnap = model_final(ctx.model.call('c10_final', [1 if case['lmtp'] else 0, [], chunks,
                                                                [enc_op(o) for o in case['ops'][:executed]]]))
        print('model    : final state %s' % ('equal' if (results, snap) == (mres, msnap) else 'DIFFERS'))
    print('oracle   :', 'holds' if ok else 'FAILS')
    return 0 if ok else 1


def replay(ctx, case):
    c = _unjson(case.get('case', case))
    if c.get('kind') == 'count':
        return replay_count(ctx, c)
    if c.get('kind') == 'bad':
        return replay_bad(ctx, c)
    print('client   :', 'LmtpClient' if c['lmtp'] else 'Client', 'extensions pre-set:', c['exts0'])
    print('server   :', [(r['code'], r['lines']) for r in c['script']], '+ extra', c['extra'])
    print('chunks   :', c['chunks'])
    trace, registry, returned = run_impl(c)
    for op, (r, snap, rem) in zip(c['ops'], trace):
        print('call     :', op)
        print('  result :', (EXN.get(r[1]) if r[0] == 2 else r))
        print('  replies:', [(o[0], o[1], o[2]) for o in snap[0]], 'queue', snap[1])
        print('  unread :', rem)
    if ctx.model:
        mt = model_trace(ctx.model.call('c10_run', model_input(c)))
        print('model    :')
        for (r, snap) in mt:
            print('  result :', (EXN.get(r[1]) if r[0] == 2 else r), 'replies', [(o[0], o[1], o[2]) for o in snap[0]], 'queue', snap[1])

    def report(key, case, what):
        print('ORACLE   : %s: %s' % (key, what))
    ok = oracle(report, c, trace, registry, returned)
    print('oracle   :', 'holds' if ok else 'FAILS')
    return 0 if ok else 1
