"""C18 - PROXY protocol headers are parsed exactly and never over-read.

Correspondence of model/Proxy.v with slimta.util.proxyproto (ProxyProtocol,
ProxyProtocolV1, ProxyProtocolV2 on a fake socket with a short-read schedule)
and the property oracle evaluated on the implementation alone: an independent
recogniser of the PROXY protocol specification decides whether the stream
starts with a well-formed header; well-formed => the wrapped handler gets the
encoded source address with exactly the header consumed, anything else =>
handler called with (None, None), no exception, bounded consumption."""
import re, socket, struct, ipaddress, itertools, json

import gevent
from gevent.event import Event

from vp.core import B, U

from slimta.util import proxyproto as PP
from slimta.util.proxyproto import ProxyProtocol, ProxyProtocolV1, ProxyProtocolV2, LocalConnection
from slimta.edge import EdgeServer

ASSUMPTIONS = [
    'socket: recv_into(buf, n) stores min(n, k, available) bytes, k >= 1 the next short-read schedule entry; 0 only at EOF; no socket errors, no timeouts',
    'well-formed = PROXY protocol specification (haproxy proxy-protocol.txt 2.1/2.2): v1 line <= 107 bytes, single spaces, canonical decimal IPv4 octets and ports without leading zeros, IPv6 text accepted by inet_pton; v2 signature, version 2, command LOCAL/PROXY, family/protocol byte in {00,11,12,21,22,31,32}, declared length >= the address block',
    'IPv6 text conversion: the theorems are stated for any inet_pton6/inet_ntop6 pair satisfying ip6_oracle (round trip, <= 39 printable non-space ASCII characters) and C18_ip6_glibc proves ip6_oracle for the glibc 2.36 algorithms written in model/Proxy.v; that libc computes what those Gallina functions compute is checked differentially on every run (every string over small alphabets to length 6-9, 2.5k-30k addresses), not proved',
    'a LOCAL command whose family/protocol byte is not 00 may end as "local" or "invalid" (the code parses the ignored address block before looking at the command); reported, not judged',
    'asserts are live (python is not run with -O)',
    'concurrency: all connections of one class are served by ONE edge object (as an EdgeServer serves its connections); greenlets switch only inside recv_into (gevent); the concurrent streams park every connection at a harness gate inside recv_into (at every call, or when its current TCP segment is used up) and the harness decides which connection continues',
    'the wrapped handler is arbitrary application code: whatever it raises (AssertionError included) is not the parser\'s business and must leave handle() unchanged',
    'mixin(): readers built with ProxyProtocolV1/V2/ProxyProtocol.mixin() on instances of one recording EdgeServer subclass must behave like the statically subclassed readers, whatever was mixed in before in the same process',
]

SIG = b'\r\n\r\n\x00\r\nQUIT\n'
INF = 10 ** 9

MESSAGES = {
    'Received EOF during proxy protocol header': 1,
    "String must start with 'PROXY' and end with CRLF": 2,
    'Invalid proxy protocol address family': 3,
    'Invalid proxy protocol header format': 4,
    'Invalid proxy protocol source IP format': 5,
    'Invalid proxy protocol destination IP format': 6,
    'Invalid proxy protocol source port format': 7,
    'Invalid proxy protocol destination port format': 8,
    'Proxy protocol source port out of range': 9,
    'Proxy protocol destination port out of range': 10,
    'Invalid proxy protocol v2 signature': 11,
    'Invalid proxy protocol version': 12,
    'Invalid proxy protocol command': 13,
    'Invalid proxy protocol address family or transport protocol': 14,
    'Invalid proxy protocol data': 15,
    'Invalid proxy protocol signature': 16,
}


# ------------------------------------------------------------------ fake socket
class PPSocket(object):
    """The peer sends `data` and closes.  recv_into/recv hand out at most the
    next schedule entry (>= 1) per call."""

    def __init__(self, data, sched=()):
        self.data = bytes(data)
        self.pos = 0
        self.sched = list(sched)
        self.requests = []
        self.bad_request = None

    def fileno(self):
        return -1

    def getpeername(self):
        return ('192.0.2.1', 4321)

    def getsockname(self):
        return ('192.0.2.2', 25)

    def _take(self, n):
        k = max(1, self.sched.pop(0)) if self.sched else INF
        m = min(n, k, len(self.data) - self.pos)
        self.requests.append((n, m))
        out = self.data[self.pos:self.pos + m]
        self.pos += m
        return out

    def recv_into(self, buf, nbytes=0):
        size = len(buf)
        if nbytes == 0:
            nbytes = size
        if nbytes > size or nbytes < 0:
            self.bad_request = (nbytes, size)
            raise ValueError('buffer too small for requested bytes')
        out = self._take(nbytes)
        buf[0:len(out)] = out
        return len(out)

    def recv(self, n=4096):
        return self._take(n)

    def unread(self):
        return self.data[self.pos:]

    def close(self):
        pass


class _Base(object):
    def handle(self, sock, addr):
        self.got = (addr, sock.pos)
        seen = getattr(self, 'seen', None)
        if seen is not None:        # one edge object serving several connections
            seen[sock] = self.got


class EdgeV1(ProxyProtocolV1, _Base):
    pass


class EdgeV2(ProxyProtocolV2, _Base):
    pass


class EdgeAuto(ProxyProtocol, _Base):
    pass


EDGES = {'v1': EdgeV1, 'v2': EdgeV2, 'auto': EdgeAuto}


def caddr(a):
    if isinstance(a, bytes):
        return ('path', a)
    if isinstance(a, tuple) and len(a) == 2:
        if a[0] is None and a[1] is None:
            return ('none',)
        if isinstance(a[0], str) and isinstance(a[1], int):
            return ('ip', a[0], a[1])
    return ('other', repr(a))


def impl_handle(variant, data, sched):
    """what X.handle() did: ('call', addr, consumed) | ('drop', consumed) | ('exc', name, consumed)"""
    e = EDGES[variant]()
    e.got = None
    s = PPSocket(data, sched)
    try:
        e.handle(s, None)
    except BaseException as ex:   # noqa
        return ('exc', type(ex).__name__, s.pos)
    if e.got is None:
        return ('drop', s.pos)
    return ('call', caddr(e.got[0]), e.got[1])


def impl_process(variant, data, sched):
    """process_pp_v1 / process_pp_v2 (public classmethods): ('ok', src, dst, consumed) |
    ('assert', why, consumed) | ('local', consumed) | ('exc', name, consumed)"""
    s = PPSocket(data, sched)
    try:
        if variant == 'v1':
            src, dst = ProxyProtocolV1.process_pp_v1(s, b'')
        else:
            src, dst = ProxyProtocolV2.process_pp_v2(s, b'')
    except AssertionError as ex:
        return ('assert', MESSAGES.get(str(ex), str(ex)), s.pos)
    except LocalConnection:
        return ('local', s.pos)
    except BaseException as ex:   # noqa
        return ('exc', type(ex).__name__, s.pos)
    return ('ok', caddr(src), caddr(dst), s.pos)


EXC_NAMES = {2: 'ValueError', 3: 'UnicodeDecodeError', 4: 'OSError', 5: 'error', 6: 'IndexError'}


def maddr(v):
    if v[0] == 0:
        return ('none',)
    if v[0] == 1:
        return ('ip', U(v[1]), v[2])
    return ('path', B(v[1]))


def model_out(o):
    """model value -> same shape as impl_process"""
    t = o[0]
    if t == 0:
        return ('ok', maddr(o[1]), maddr(o[2]), o[3])
    if t == 1:
        return ('assert', o[1], o[2])
    if t == 2:
        return ('local', o[1])
    if t == 3:
        return ('exc', EXC_NAMES.get(o[1], '?'), o[2])
    return ('fuel',)


def handle_view(p):
    """process-level outcome -> what handle() shows"""
    if p[0] == 'ok':
        return ('call', p[1], p[3])
    if p[0] == 'assert':
        return ('call', ('none',), p[2])
    if p[0] == 'local':
        return ('drop', p[1])
    return p


# ------------------------------------------------------------------ the specification, independently
OCTET = r'(?:0|[1-9][0-9]?|1[0-9][0-9]|2[0-4][0-9]|25[0-5])'
IP4_RE = re.compile((r'\A%s\.%s\.%s\.%s\Z' % ((OCTET,) * 4)).encode())
PORT_RE = re.compile(br'\A(?:0|[1-9][0-9]{0,4})\Z')


def spec_ip6(text):
    """'valid' / 'invalid' / 'unsure' (the two reference implementations disagree)"""
    if not text or any(c > 127 or c == 0 for c in text):
        return 'invalid', None
    s = text.decode('ascii')
    try:
        a = ipaddress.IPv6Address(s).packed if '%' not in s and '/' not in s else None
    except ValueError:
        a = None
    try:
        b = socket.inet_pton(socket.AF_INET6, s)
    except (OSError, ValueError):
        b = None
    if a is not None and b is not None and a == b:
        return 'valid', a
    if a is None and b is None:
        return 'invalid', None
    return 'unsure', b


def spec_v1(stream):
    """-> ('ok', src, dst, n) | ('unsure', n) | None.  src/dst: ('none',) | ('ip4', text, port) | ('ip6', packed, port)"""
    i = stream.find(b'\r\n')
    if i < 0 or i + 2 > 107:
        return None
    line = stream[:i]
    n = i + 2
    if not line.startswith(b'PROXY '):
        return None
    body = line[6:]
    if body == b'UNKNOWN' or body.startswith(b'UNKNOWN '):
        return ('ok', ('none',), ('none',), n)
    parts = body.split(b' ')
    if len(parts) != 5 or parts[0] not in (b'TCP4', b'TCP6'):
        return None
    if not PORT_RE.match(parts[3]) or not PORT_RE.match(parts[4]):
        return None
    sp, dp = int(parts[3]), int(parts[4])
    if sp > 65535 or dp > 65535:
        return None
    if parts[0] == b'TCP4':
        if not IP4_RE.match(parts[1]) or not IP4_RE.match(parts[2]):
            return None
        return ('ok', ('ip4', parts[1].decode(), sp), ('ip4', parts[2].decode(), dp), n)
    (k1, a1), (k2, a2) = spec_ip6(parts[1]), spec_ip6(parts[2])
    if k1 == 'invalid' or k2 == 'invalid':
        return None
    if k1 == 'unsure' or k2 == 'unsure':
        return ('unsure', n)
    return ('ok', ('ip6', a1, sp), ('ip6', a2, dp), n)


V2_FAMPROTO = {0x00: None, 0x11: 4, 0x12: 4, 0x21: 6, 0x22: 6, 0x31: 1, 0x32: 1}


def spec_v2(stream):
    """-> ('ok', src, dst, n) | ('local', n) | ('local-odd', n) | None"""
    if len(stream) < 16 or stream[:12] != SIG:
        return None
    vc, fp = stream[12], stream[13]
    ln = struct.unpack('!H', stream[14:16])[0]
    if vc not in (0x20, 0x21):
        return None
    if len(stream) < 16 + ln:
        return None
    n = 16 + ln
    blk = stream[16:n]
    if vc == 0x20:
        return ('local', n) if fp == 0 else ('local-odd', n)
    if fp not in V2_FAMPROTO:
        return None
    fam = V2_FAMPROTO[fp]
    if fam is None:
        return ('ok', ('none',), ('none',), n)
    if fam == 4:
        if ln < 12:
            return None
        sp, dp = struct.unpack('!HH', blk[8:12])
        return ('ok', ('ip4', '.'.join(str(x) for x in blk[0:4]), sp), ('ip4', '.'.join(str(x) for x in blk[4:8]), dp), n)
    if fam == 6:
        if ln < 36:
            return None
        sp, dp = struct.unpack('!HH', blk[32:36])
        return ('ok', ('ip6', blk[0:16], sp), ('ip6', blk[16:32], dp), n)
    if ln < 216:
        return None
    return ('ok', ('path', blk[0:108].rstrip(b'\x00')), ('path', blk[108:216].rstrip(b'\x00')), n)


def spec(variant, stream):
    if variant == 'v1':
        return spec_v1(stream)
    if variant == 'v2':
        return spec_v2(stream)
    if stream.startswith(b'PROXY '):
        return spec_v1(stream)
    if stream.startswith(SIG[:8]):
        return spec_v2(stream)
    return None


def bound(variant, stream):
    """most bytes a parser may take from `stream`"""
    if variant == 'auto':
        variant = 'v1' if stream[:8].startswith(b'PROXY ') else 'v2'
    if variant == 'v1':
        return 107
    if len(stream) >= 16:
        return 16 + struct.unpack('!H', stream[14:16])[0]
    return 16


def addr_matches(want, got):
    """spec address vs canonical implementation address"""
    if want[0] == 'none':
        return got == ('none',)
    if want[0] == 'path':
        return got == ('path', want[1])
    if got[0] != 'ip' or got[2] != want[2]:
        return False
    if want[0] == 'ip4':
        return got[1] == want[1]
    try:
        return ipaddress.IPv6Address(got[1]).packed == want[1] and got[1] == got[1].lower()
    except ValueError:
        return False


def classify_failure(variant, stream):
    """names the failing-input class of a malformed stream that was accepted / crashed"""
    v = variant
    if v == 'auto':
        v = 'v1' if stream.startswith(b'PROXY ') else 'v2'
    if v == 'v1':
        i = stream.find(b'\r\n', 6)
        line = stream[:i] if i >= 0 else stream[:107]
        parts = line[6:].split(b' ')
        if len(parts) == 5:
            if b'\x00' in parts[1] or b'\x00' in parts[2]:
                return 'c18:v1-nul-in-address'
            if not PORT_RE.match(parts[3]) or not PORT_RE.match(parts[4]):
                return 'c18:v1-lenient-port'
        return 'c18:v1-malformed'
    if len(stream) >= 14 and stream[:12] == SIG:
        if stream[12] & 0xf0 == 0x20 and stream[12] & 0x0f > 1:
            return 'c18:v2-unassigned-command'
        if stream[13] not in V2_FAMPROTO:
            return 'c18:v2-bad-family-protocol-byte'
    return 'c18:v2-malformed'


def judge(ctx, variant, data, sched, h):
    """the property statement on what handle() did"""
    sp = spec(variant, data)
    case = dict(variant=variant, data=data, sched=list(sched[:64]))
    if h[0] == 'exc':
        ctx.fail(classify_failure(variant, data) + ':exception-escapes', case,
                 '%s escaped from %s.handle after %d bytes' % (h[1], variant, h[2]))
        return sp
    if sp is not None and sp[0] == 'ok':
        ctx.count('oracle:well-formed')
        want_src, n = sp[1], sp[3]
        if h[0] != 'call' or not addr_matches(want_src, h[1]):
            ctx.fail('c18:well-formed-wrong-address', case, 'expected source %r, handle did %r' % (want_src, h))
        elif h[2] != n:
            ctx.fail('c18:well-formed-wrong-consumption', case, 'header is %d bytes, %d consumed when the handler was called' % (n, h[2]))
    elif sp is not None and sp[0] == 'local':
        ctx.count('oracle:local')
        if h != ('drop', sp[1]):
            ctx.fail('c18:local-not-dropped', case, 'LOCAL header of %d bytes, handle did %r' % (sp[1], h))
    elif sp is not None and sp[0] in ('local-odd', 'unsure'):
        ctx.count('oracle:' + sp[0])
        if sp[0] == 'local-odd':
            ctx.note('LOCAL command with a family/protocol byte other than 00: ends as local or invalid depending on the ignored address block; tolerated')
            okay = h in (('drop', sp[1]), ('call', ('none',), sp[1])) or (h[0] == 'call' and h[1] == ('none',) and h[2] <= sp[1])
        else:
            ctx.note('IPv6 text on which ipaddress and libc inet_pton disagree: either outcome tolerated')
            okay = h[0] == 'call' and h[2] <= 107
        if not okay:
            ctx.fail('c18:odd-header', case, 'handle did %r' % (h,))
    else:
        ctx.count('oracle:malformed')
        b = bound(variant, data)
        if h[0] != 'call' or h[1] != ('none',):
            ctx.fail(classify_failure(variant, data) + ':accepted', case,
                     'malformed header, handle did %r instead of calling the handler with (None, None)' % (h,))
        elif h[2] > b:
            ctx.fail('c18:over-read', case, '%d bytes consumed, bound %d' % (h[2], b))
    return sp


# ------------------------------------------------------------------ running a batch of cases
def run_cases(ctx, cases, label, nontrivial=None):
    """cases: list of (variant, data, sched).  Runs implementation (handle + process level),
    model (process level), compares, judges."""
    if not cases:
        return
    by = {'v1': [], 'v2': [], 'auto': []}
    for idx, (v, d, s) in enumerate(cases):
        by[v].append(idx)
    mouts = [None] * len(cases)
    for v, idxs in by.items():
        outs = ctx.model.batch('c18_' + v, [[cases[i][1], [min(k, 70000) for k in cases[i][2]]] for i in idxs])
        for i, o in zip(idxs, outs):
            mouts[i] = model_out(o)
    for (v, d, s), m in zip(cases, mouts):
        h = impl_handle(v, d, s)
        nf = len(ctx.failures)
        sp = judge(ctx, v, d, s, h)
        if len(ctx.failures) > nf and s:
            # replay with the plainest schedule that still fails
            f = ctx.failures[-1]
            for s2 in ([], [1] * len(s)):
                probe = type(ctx)(ctx.prop_id, ctx.tier, ctx.seed)
                judge(probe, v, d, s2, impl_handle(v, d, s2))
                if probe.failures and probe.failures[-1]['key'] == f['key']:
                    ctx.failures[-1] = probe.failures[-1]
                    break
        ctx.count('case:' + label)
        ctx.count('outcome:' + (h[0] if h[0] != 'call' else ('invalid-or-unknown' if h[1] == ('none',) else 'address')))
        nt = (sp is not None) or d[:6] == b'PROXY ' or d[:8] == SIG[:8]
        if nontrivial is not None:
            nt = nontrivial
        ctx.evaluated((v, d, tuple(s)), nontrivial=nt)
        case = dict(variant=v, data=d, sched=list(s[:64]))
        if m[0] == 'fuel':
            ctx.mismatch('model-out-of-fuel', case, h, m)
            continue
        if v == 'auto':
            if h != handle_view(m):
                ctx.mismatch('handle-' + label, case, h, handle_view(m))
        else:
            p = impl_process(v, d, s)
            if p != m:
                ctx.mismatch('process-' + label, case, p, m)
            if handle_view(p) != h:
                ctx.mismatch('handle-vs-process-' + label, case, h, handle_view(p))


# ------------------------------------------------------------------ generators
def enc_v1(kind, src=None, dst=None, sp=0, dp=0, rest=b''):
    if kind == 'unknown':
        return b'PROXY UNKNOWN' + rest + b'\r\n'
    if kind == 'tcp4':
        f = lambda a: '.'.join(str(x) for x in a)
        return ('PROXY TCP4 %s %s %d %d\r\n' % (f(src), f(dst), sp, dp)).encode()
    f = lambda a: socket.inet_ntop(socket.AF_INET6, a)
    return ('PROXY TCP6 %s %s %d %d\r\n' % (f(src), f(dst), sp, dp)).encode()


def enc_v2(vercmd, famproto, block):
    return SIG + bytes([vercmd, famproto]) + struct.pack('!H', len(block)) + block


IP4S = [bytes(x) for x in ([0, 0, 0, 0], [255, 255, 255, 255], [1, 2, 3, 4], [127, 0, 0, 1], [10, 0, 0, 9], [9, 10, 99, 100],
                           [199, 200, 249, 250], [192, 168, 100, 200], [100, 101, 109, 110], [0, 1, 0, 1])]
PORTS = [0, 1, 9, 10, 25, 99, 100, 443, 999, 1000, 9999, 10000, 32768, 65534, 65535]
IP6S = [bytes(16), bytes(15) + b'\x01', b'\xff' * 16, bytes.fromhex('20010db8000000000000000000000001'),
        bytes.fromhex('00000000000000000000ffff01020304'), bytes.fromhex('00000000000000000000000001020304'),
        bytes.fromhex('00010000000000000000000000000000'), bytes.fromhex('fe800000000000000000000000000001'),
        bytes.fromhex('00010000000000020000000000000003'), bytes.fromhex('000a000b000c000d000e000f00000001'),
        bytes.fromhex('00000000000000000000000000010000'), bytes.fromhex('00000000000000000000fffe01020304'),
        bytes.fromhex('00000001000000000000000000000000'), bytes.fromhex('00010002000300040005000600070000'),
        bytes.fromhex('0000000000000000ffff000001020304'), bytes.fromhex('12345678 9abcdef0 0fed0cba 00980076'.replace(' ', '')),
        bytes.fromhex('00000000000000010000000000000001'), bytes.fromhex('10000100001000010000000000000000')]
UNKNOWN_RESTS = [b'', b' ', b' x', b' ffff:f...f:ffff ffff:f...f:ffff 65535 65535', b' a\rb', b' a\nb', b' \r', b' TCP4 1.2.3.4 1.2.3.4 1 2',
                 b' ' + b'z' * 91]
PAYLOADS = [b'', b'EHLO example.com\r\n', b'\r\n', b'\n', b'\r', b'\x00' * 5, b'PROXY UNKNOWN\r\n', SIG + b'\x21\x00\x00\x00', b'x' * 200]
PATHS = [b'', b'a', b'/var/run/sock', b'\x00abstract', b'a\x00b', b'p' * 108, b'q' * 107, b'\xff\xfe']


def rand_ip6(rng):
    r = rng.random()
    if r < 0.3:
        return rng.choice(IP6S)
    w = [rng.choice([0, 0, 0, 1, 0xffff, rng.randrange(65536), rng.randrange(16), rng.randrange(256), rng.randrange(4096)]) for _ in range(8)]
    if r < 0.5:
        z = rng.randrange(0, 8); ln = rng.randrange(1, 9 - z)
        for i in range(z, z + ln):
            w[i] = 0
    return struct.pack('!8H', *w)


def rand_sched(rng, n):
    mode = rng.choice(['none', 'ones', 'twos', 'rand', 'rand', 'mixed'])
    if mode == 'none':
        return []
    if mode == 'ones':
        return [1] * (n + 2)
    if mode == 'twos':
        return [2] * (n + 2)
    if mode == 'rand':
        return [rng.randrange(1, 5) for _ in range(n + 2)]
    return [rng.choice([1, 1, 2, 3, 7, 8, 16, 50, 300]) for _ in range(n + 2)]


def valid_v1(rng, boundary=False):
    k = rng.choice(['tcp4', 'tcp4', 'tcp6', 'tcp6', 'unknown'])
    if k == 'unknown':
        return enc_v1('unknown', rest=rng.choice(UNKNOWN_RESTS))
    if k == 'tcp4':
        ip = lambda: rng.choice(IP4S) if rng.random() < 0.6 else bytes(rng.randrange(256) for _ in range(4))
    else:
        ip = lambda: rand_ip6(rng)
    port = lambda: rng.choice(PORTS) if rng.random() < 0.6 else rng.randrange(65536)
    return enc_v1(k, ip(), ip(), port(), port())


def pad(p):
    return p + b'\x00' * (108 - len(p))


def valid_v2(rng, tlvmax=40):
    k = rng.choice(['inet', 'inet', 'inet6', 'inet6', 'unix', 'unspec', 'local'])
    tlv = bytes(rng.randrange(256) for _ in range(rng.choice([0, 0, 1, 3, 7, rng.randrange(0, tlvmax + 1)])))
    proto = rng.choice([1, 1, 2])
    port = lambda: rng.choice(PORTS) if rng.random() < 0.6 else rng.randrange(65536)
    if k == 'inet':
        ip = lambda: rng.choice(IP4S) if rng.random() < 0.6 else bytes(rng.randrange(256) for _ in range(4))
        return enc_v2(0x21, 0x10 + proto, ip() + ip() + struct.pack('!HH', port(), port()) + tlv)
    if k == 'inet6':
        return enc_v2(0x21, 0x20 + proto, rand_ip6(rng) + rand_ip6(rng) + struct.pack('!HH', port(), port()) + tlv)
    if k == 'unix':
        return enc_v2(0x21, 0x30 + proto, pad(rng.choice(PATHS)) + pad(rng.choice(PATHS)) + tlv)
    if k == 'unspec':
        return enc_v2(0x21, 0x00, tlv)
    return enc_v2(0x20, 0x00, tlv)


def gen_boundary(ctx):
    """boundary values of every field, each with a few payloads and schedules"""
    rng = ctx.rng
    hdrs = []
    for a in IP4S:
        hdrs.append(('v1', enc_v1('tcp4', a, IP4S[2], 1, 2)))
        hdrs.append(('v1', enc_v1('tcp4', IP4S[3], a, 65535, 0)))
        hdrs.append(('v2', enc_v2(0x21, 0x11, a + IP4S[2] + struct.pack('!HH', 1, 2))))
        hdrs.append(('v2', enc_v2(0x21, 0x12, IP4S[1] + a + struct.pack('!HH', 65535, 0))))
    for p in PORTS:
        hdrs.append(('v1', enc_v1('tcp4', IP4S[2], IP4S[3], p, 25)))
        hdrs.append(('v1', enc_v1('tcp6', IP6S[1], IP6S[3], 25, p)))
        hdrs.append(('v2', enc_v2(0x21, 0x11, IP4S[2] + IP4S[3] + struct.pack('!HH', p, 25))))
        hdrs.append(('v2', enc_v2(0x21, 0x21, IP6S[1] + IP6S[3] + struct.pack('!HH', 25, p))))
    for a in IP6S:
        hdrs.append(('v1', enc_v1('tcp6', a, IP6S[1], 1, 2)))
        hdrs.append(('v1', enc_v1('tcp6', IP6S[2], a, 3, 4)))
        hdrs.append(('v2', enc_v2(0x21, 0x21, a + IP6S[2] + struct.pack('!HH', 1, 2))))
        hdrs.append(('v2', enc_v2(0x21, 0x22, IP6S[1] + a + struct.pack('!HH', 3, 4) + b'\x03\x00\x01\x07')))
    for r in UNKNOWN_RESTS:
        hdrs.append(('v1', enc_v1('unknown', rest=r)))
    for p in PATHS:
        hdrs.append(('v2', enc_v2(0x21, 0x31, pad(p) + pad(PATHS[2]))))
        hdrs.append(('v2', enc_v2(0x21, 0x32, pad(PATHS[1]) + pad(p) + b'TLV')))
    for blob in (b'', b'x', b'\x00' * 12, bytes(range(40))):
        hdrs.append(('v2', enc_v2(0x21, 0x00, blob)))
        hdrs.append(('v2', enc_v2(0x20, 0x00, blob)))
        hdrs.append(('v2', enc_v2(0x20, 0x11, blob)))
        hdrs.append(('v2', enc_v2(0x20, 0x31, blob)))
    # the longest v1 lines: 104..107 bytes and one byte too long
    hdrs.append(('v1', enc_v1('tcp6', IP6S[2], IP6S[2], 65535, 65535)))
    hdrs.append(('v1', enc_v1('unknown', rest=b' ' + b'y' * 91)))
    hdrs.append(('v1', enc_v1('unknown', rest=b' ' + b'y' * 92)))
    hdrs.append(('v1', enc_v1('unknown', rest=b' ' + b'y' * 90 + b'\r')))
    cases = []
    for v, h in hdrs:
        for variant in (v, 'auto'):
            pl = rng.choice(PAYLOADS)
            cases.append((variant, h + pl, []))
            cases.append((variant, h + rng.choice(PAYLOADS), [1] * (len(h) + 2)))
            cases.append((variant, h + pl, rand_sched(rng, len(h))))
    ctx.sample(dict(kind='boundary', variant=hdrs[0][0], data=hdrs[0][1] + b'EHLO', sched=[1, 2, 3]))
    run_cases(ctx, cases, 'boundary')


def gen_v2_lengths(ctx):
    """every declared length 0..300 and a sample up to 65535, complete and truncated"""
    rng = ctx.rng
    lens = list(range(0, 301)) + [301, 511, 512, 1000, 4095, 4096, 65534, 65535] + \
        [rng.randrange(301, 65536) for _ in range(6 if ctx.quick else 60)]
    cases = []
    for ln in lens:
        for vercmd, fp in ((0x21, 0x11), (0x21, 0x21), (0x21, 0x31), (0x21, 0x00), (0x20, 0x00), (0x20, 0x11)):
            if ln > 600 and (vercmd, fp) not in ((0x21, 0x11), (0x21, 0x00), (0x20, 0x00)):
                continue
            body = bytes((7 * i + ln) % 251 for i in range(ln))
            hdr = SIG + bytes([vercmd, fp]) + struct.pack('!H', ln)
            pl = rng.choice(PAYLOADS)
            cases.append((rng.choice(['v2', 'auto']), hdr + body + pl, rand_sched(rng, 40)))
            if ln > 0:
                cut = rng.randrange(0, ln)
                cases.append((rng.choice(['v2', 'auto']), hdr + body[:cut], rand_sched(rng, 40)))
    ctx.count('v2-length-fields', len(lens))
    run_cases(ctx, cases, 'v2-length')


CORRUPT_BASES = None


def corrupt_bases():
    return [
        ('v1', enc_v1('tcp4', IP4S[2], IP4S[8], 25, 65535)),
        ('v1', enc_v1('tcp6', IP6S[3], IP6S[4], 1000, 9)),
        ('v1', enc_v1('unknown', rest=b' x')),
        ('v1', enc_v1('tcp4', IP4S[0], IP4S[1], 0, 10)),
        ('v2', enc_v2(0x21, 0x11, IP4S[2] + IP4S[3] + struct.pack('!HH', 4321, 25) + b'\x04\x00\x01\x00')),
        ('v2', enc_v2(0x21, 0x21, IP6S[3] + IP6S[1] + struct.pack('!HH', 1, 2))),
        ('v2', enc_v2(0x20, 0x00, b'')),
        ('v2', enc_v2(0x21, 0x00, b'abc')),
        ('v2', enc_v2(0x21, 0x31, pad(b'/a') + pad(b'/b'))),
    ]


INTERESTING = [0, 1, 9, 10, 11, 12, 13, 32, 43, 45, 46, 47, 48, 49, 57, 58, 65, 95, 97, 102, 103, 127, 128, 255,
               0x10, 0x11, 0x12, 0x13, 0x1f, 0x20, 0x21, 0x22, 0x2f, 0x30, 0x31, 0x32, 0x40, 0xf1]


def gen_corruptions(ctx):
    """every single-byte replacement (all 256 values), deletion, insertion and truncation of valid headers"""
    rng = ctx.rng
    bases = corrupt_bases()
    cases = []
    for bi, (v, h) in enumerate(bases):
        full = (not ctx.quick) or bi in (0, 4) or len(h) <= 20
        lim = len(h) if v == 'v1' or len(h) < 60 else 56      # unix block: header + start of the block
        for i in range(lim):
            vals = range(256) if full else sorted(set(INTERESTING + [h[i] ^ 1, (h[i] + 1) & 255, (h[i] - 1) & 255]))
            for b in vals:
                if b == h[i]:
                    continue
                variant = v if (i + b) % 3 else 'auto'
                cases.append((variant, h[:i] + bytes([b]) + h[i + 1:] + b'EHLO\r\n', [] if (i + b) % 2 else [1 + (b % 3)] * 120))
            cases.append((v, h[:i] + h[i + 1:] + b'EHLO\r\n', []))                      # deletion
            for ins in (b' ', b'\r', b'\n', b'\x00', b'0', b'_', b'+'):
                cases.append((v, h[:i] + ins + h[i:] + b'EHLO\r\n', [2] * 120))        # insertion
        for cut in range(len(h)):                                                        # truncation (EOF)
            cases.append((v, h[:cut], []))
            cases.append(('auto', h[:cut], [1] * 300))
            cases.append((v, h[:cut], rand_sched(rng, cut + 2)))
    run_cases(ctx, cases, 'corruption')
    ctx.sample(dict(kind='corruption', base=bases[0][1], note='every position x every byte value, deletions, insertions, truncations'))


V1_FIELD_JUNK = [b'1_1', b'+22', b'-0', b' 1', b'1 ', b'\t1', b'1\n', b'1\x0b', b'01', b'00', b'000', b'0x10', b'1e3', b'65536', b'99999', b'100000',
                 b'4294967296', b'', b'\xd9\xa1', b'1\x00', b'\x001', b'1.0', b'--1', b'1__1', b'_1', b'1_', b'0_0', b'0b1', b'0o7', b'\xef\xbc\x91', b'12a']
V1_IP_JUNK = [b'1.2.3', b'1.2.3.4.5', b'01.2.3.4', b'1.2.3.256', b'1.2.3.4\x00', b'\x001.2.3.4', b'1.2.\x003.4', b'1.2.3.04', b'1..2.3', b'.1.2.3', b'1.2.3.',
              b'::1', b'1.2.3.4\r', b'1.2.3.\xff', b'0x1.2.3.4', b'1.2.3.4 ', b'', b'a.b.c.d', b'1.2.3.+4', b'256.1.1.1', b'1.2.3.4\n']
V1_IP6_JUNK = [b'::', b'::1', b'1::', b':1', b'1:', b':::', b'1::2::3', b'1:2:3:4:5:6:7:8', b'1:2:3:4:5:6:7:8:9', b'1:2:3:4:5:6:7', b'::1.2.3.4', b'::ffff:1.2.3.4',
               b'1:2:3:4:5:6:1.2.3.4', b'1:2:3:4:5:6:7:1.2.3.4', b'::1.2.3', b'::01.2.3.4', b'12345::', b'FFFF::AbCd', b'g::', b'::\x00', b'\x00::', b'fe80::1%eth0',
               b'::1/128', b'1.2.3.4', b'::1.2.3.4.5', b'1:2:3:4:5:6:7::', b'::2:3:4:5:6:7:8', b'0:0:0:0:0:0:0:0', b'0000:0000:0000:0000:0000:0000:0000:0001',
               b'::1\r', b'::\xff', b'1::2:', b':1::2', b'1:::2', b'::1.2.3.4:5', b'1.2.3.4::', b'::1 ', b'00001::', b'::.1.2.3', b'1::1.2.3.256']


def gen_v1_fields(ctx):
    """lenient / malformed spellings of every v1 field"""
    rng = ctx.rng
    cases = []
    for j in V1_FIELD_JUNK:
        for pos in (3, 4):
            parts = [b'TCP4', b'1.2.3.4', b'5.6.7.8', b'1025', b'25']
            parts[pos] = j
            cases.append((rng.choice(['v1', 'auto']), b'PROXY ' + b' '.join(parts) + b'\r\nEHLO\r\n', rand_sched(rng, 60)))
    for j in V1_IP_JUNK:
        for pos in (1, 2):
            parts = [b'TCP4', b'1.2.3.4', b'5.6.7.8', b'1025', b'25']
            parts[pos] = j
            cases.append((rng.choice(['v1', 'auto']), b'PROXY ' + b' '.join(parts) + b'\r\nEHLO\r\n', rand_sched(rng, 60)))
    for j in V1_IP6_JUNK:
        for pos in (1, 2):
            parts = [b'TCP6', b'::1', b'::2', b'1025', b'25']
            parts[pos] = j
            cases.append((rng.choice(['v1', 'auto']), b'PROXY ' + b' '.join(parts) + b'\r\nEHLO\r\n', rand_sched(rng, 60)))
    for l in (b'PROXY \r\n', b'PROXY\r\n', b'PROXY UNKNOWN\r\n', b'PROXY UNKNOWNX\r\n', b'PROXY  UNKNOWN\r\n', b'PROXY unknown\r\n', b'PROXY TCP4\r\n', b'PROXY TCP4 \r\n',
              b'PROXY TCP5 1.2.3.4 1.2.3.4 1 2\r\n', b'PROXY tcp4 1.2.3.4 1.2.3.4 1 2\r\n', b'PROXY TCP4  1.2.3.4 1.2.3.4 1 2\r\n', b'PROXY TCP4 1.2.3.4 1.2.3.4 1 2 \r\n',
              b'PROXY TCP4 1.2.3.4 1.2.3.4 1 2 3\r\n', b'PROXY TCP4 1.2.3.4 1.2.3.4 1\r\n', b'PROXY TCP4 1.2.3.4 1.2.3.4 1 2\n', b'PROXY TCP4 1.2.3.4 1.2.3.4 1 2\r',
              b'PROXY TCP4 1.2.3.4 1.2.3.4 1 2\r\r\n', b'PROXY TCP4 1.2.3.4 1.2.3.4 1 2\n\r\n', b'PROXY\tTCP4 1.2.3.4 1.2.3.4 1 2\r\n', b' PROXY UNKNOWN\r\n',
              b'proxy UNKNOWN\r\n', b'PROXY \r\nPROXY UNKNOWN\r\n', b'PROXY\r\n\r\n', b'\r\nPROXY UNKNOWN\r\n', b'PROXY TCP6 1.2.3.4 1.2.3.4 1 2\r\n', b'PROXY TCP4 ::1 ::1 1 2\r\n',
              b'PROXY UNKNOWN' + b' ' * 92 + b'\r\n', b'PROXY UNKNOWN' + b' ' * 93 + b'\r\n', b'PROXY UNKNOWN' + b'a' * 200 + b'\r\n', b'PROXY TCP4 1.2.3.4 1.2.3.4 1 ' + b'0' * 70 + b'1\r\n'):
        for variant in ('v1', 'auto'):
            cases.append((variant, l + b'EHLO\r\n', rand_sched(rng, 110)))
            cases.append((variant, l, []))
    run_cases(ctx, cases, 'v1-fields')


def gen_v2_bytes(ctx):
    """every value of the version/command byte and of the family/protocol byte"""
    rng = ctx.rng
    cases = []
    blocks = {0: IP4S[2] + IP4S[3] + struct.pack('!HH', 4321, 25), 1: IP6S[3] + IP6S[1] + struct.pack('!HH', 1, 2), 2: pad(b'/a') + pad(b'/b'), 3: b'', 4: b'abc'}
    for vc in range(256):
        for bk, blk in blocks.items():
            if vc not in (0x20, 0x21, 0x22, 0x2f, 0x11, 0x31) and bk not in (0, 3):
                continue
            cases.append((rng.choice(['v2', 'auto']), enc_v2(vc, 0x11, blk) + b'EHLO\r\n', rand_sched(rng, 30)))
    for fp in range(256):
        for bk, blk in blocks.items():
            for vc in (0x21, 0x20):
                cases.append((rng.choice(['v2', 'auto']), enc_v2(vc, fp, blk) + b'EHLO\r\n', rand_sched(rng, 30)))
    run_cases(ctx, cases, 'v2-bytes')


def gen_random_valid(ctx, n):
    rng = ctx.rng
    cases = []
    for _ in range(n):
        if rng.random() < 0.5:
            v, h = 'v1', valid_v1(rng)
        else:
            v, h = 'v2', valid_v2(rng, 40 if rng.random() < 0.9 else 400)
        variant = rng.choice([v, 'auto'])
        pl = rng.choice(PAYLOADS) if rng.random() < 0.7 else bytes(rng.randrange(256) for _ in range(rng.randrange(0, 30)))
        cases.append((variant, h + pl, rand_sched(rng, len(h))))
    ctx.sample(dict(kind='random-valid', variant=cases[0][0], data=cases[0][1], sched=cases[0][2][:20]))
    run_cases(ctx, cases, 'random-valid')


def gen_garbage(ctx, n):
    rng = ctx.rng
    cases = []
    alph = b'PROXY TCP46UNKW0123456789.:_+-\r\n\x00\xff af'
    for _ in range(n):
        r = rng.random()
        ln = rng.choice([0, 1, 7, 8, 9, 15, 16, 17, 40, 106, 107, 108, 150, rng.randrange(0, 300)])
        if r < 0.3:
            d = bytes(rng.randrange(256) for _ in range(ln))
        elif r < 0.6:
            d = b'PROXY ' + bytes(rng.choice(alph) for _ in range(ln))
        elif r < 0.8:
            d = SIG[:rng.choice([8, 12, 12, 11])] + bytes(rng.choice([0x20, 0x21, 0x11, 0x00, 0x31, 0x22, rng.randrange(256)]) for _ in range(ln))
        else:
            d = bytes(rng.choice(alph) for _ in range(ln))
        cases.append((rng.choice(['v1', 'v2', 'auto', 'auto']), d, rand_sched(rng, 120)))
    run_cases(ctx, cases, 'garbage', nontrivial=None)


def all_behaviours(variant, data, limit):
    """every way recv_into can split its answers for `data`: depth-first over the schedules,
    branching on the size of each request as the implementation makes it"""
    out = []
    stack = [[]]
    while stack and len(out) < limit:
        sched = stack.pop()
        s = PPSocket(data, sched + [INF] * 0)
        # run with the schedule followed by one-byte reads to find the request sizes made after the prefix
        e = EDGES[variant](); e.got = None
        s.sched = list(sched) + [1] * 400
        try:
            e.handle(s, None)
        except BaseException:   # noqa
            pass
        reqs = s.requests
        if len(reqs) <= len(sched):
            out.append(sched)
            continue
        n, _ = reqs[len(sched)]
        avail = len(data) - sum(m for _, m in reqs[:len(sched)])
        top = min(n, avail)
        if top <= 0:
            out.append(sched)
            continue
        for k in range(1, top + 1):
            stack.append(sched + [k])
    return out


def gen_all_schedules(ctx):
    """every short-read behaviour for short headers"""
    targets = [('v1', b'PROXY UNKNOWN\r\n', b'E'), ('auto', b'PROXY UNKNOWN\r\n', b'\r\n'), ('v1', b'PROXY UNKNOWN \r\r\n', b'\n'),
               ('v2', enc_v2(0x21, 0x00, b''), b'Q'), ('auto', enc_v2(0x20, 0x00, b''), b'')]
    if not ctx.quick:
        targets += [('v2', enc_v2(0x21, 0x00, b'abcd'), b'E'), ('auto', enc_v2(0x21, 0x00, b'abcd'), b'E'), ('v1', b'PROXY UNKNOWN abcdefg\r\n', b'E'),
                    ('auto', b'PROXY UNKNOWN abcdef\r\r\n', b'\n'), ('auto', b'PROXY UNKNOWN abcdefgh\r\n', b'')]
    total = 0
    done = []
    for variant, h, pl in targets:
        lim = 600000
        scheds = all_behaviours(variant, h + pl, lim)
        if len(scheds) >= lim:
            raise RuntimeError('schedule enumeration not complete for %r' % (h,))
        ctx.count('all-schedules:%s:%d-bytes' % (variant, len(h)), len(scheds))
        total += len(scheds)
        done.append('%s:%d bytes:%d schedules' % (variant, len(h), len(scheds)))
        run_cases(ctx, [(variant, h + pl, s) for s in scheds], 'all-schedules')
    ctx.extra['exhaustive'] = True
    ctx.extra['exhaustive_bound'] = ('every distinct sequence of recv_into results (all short-read behaviours) for the headers: %s; total %d' % ('; '.join(done), total))


def check_text(ctx):
    """the text conversions of the model against libc / Python, and parse_pp_line directly"""
    rng = ctx.rng
    # inet_pton4 / inet_pton6 : every string over a small alphabet
    for name, alph, maxlen, af in (('c18_pton4', b'0125.', 7 if ctx.quick else 8, socket.AF_INET), ('c18_pton6', b'01f:.', 6 if ctx.quick else 8, socket.AF_INET6),
                                   ('c18_pton6', b'1:.F', 7 if ctx.quick else 9, socket.AF_INET6)):
        strs = [bytes(t) for L in range(0, maxlen + 1) for t in itertools.product(alph, repeat=L)]
        outs = ctx.model.batch(name, strs)
        for s, o in zip(strs, outs):
            try:
                want = socket.inet_pton(af, s.decode('ascii'))
            except OSError:
                want = None
            got = B(o[0]) if o else None
            if want != got:
                ctx.mismatch('text-' + name, dict(text=s), want, got)
        ctx.count('text:' + name, len(strs))
        ctx.evaluations += len(strs)
    strs = V1_IP6_JUNK + V1_IP_JUNK + [socket.inet_ntop(socket.AF_INET6, a).encode() for a in IP6S]
    for _ in range(300 if ctx.quick else 5000):
        t = socket.inet_ntop(socket.AF_INET6, rand_ip6(rng)).encode()
        if rng.random() < 0.5 and t:
            i = rng.randrange(len(t)); t = t[:i] + bytes([rng.choice(b'0:.fF19g')]) + t[i + rng.choice([0, 1]):]
        strs.append(t)
    strs = [s for s in strs if all(0 < c < 128 for c in s)]
    for name, af in (('c18_pton6', socket.AF_INET6), ('c18_pton4', socket.AF_INET)):
        outs = ctx.model.batch(name, strs)
        for s, o in zip(strs, outs):
            try:
                want = socket.inet_pton(af, s.decode('ascii'))
            except OSError:
                want = None
            got = B(o[0]) if o else None
            if want != got:
                ctx.mismatch('text-' + name, dict(text=s), want, got)
        ctx.evaluations += len(strs)
    # inet_ntop6
    addrs = list(IP6S) + [rand_ip6(rng) for _ in range(2000 if ctx.quick else 30000)]
    for z in range(256):   # every zero/non-zero pattern of the 8 words
        addrs.append(struct.pack('!8H', *[(0 if (z >> i) & 1 else 0x1a0 + i) for i in range(8)]))
        addrs.append(struct.pack('!8H', *[(0 if (z >> i) & 1 else 0xffff) for i in range(8)]))
    outs = ctx.model.batch('c18_ntop6', addrs)
    for a, o in zip(addrs, outs):
        want = socket.inet_ntop(socket.AF_INET6, a).encode()
        if want != B(o):
            ctx.mismatch('text-ntop6', dict(addr=a), want, B(o))
    ctx.evaluations += len(addrs)
    ctx.count('text:ntop6', len(addrs))
    a4 = [bytes([a, b, 7, 255 - a]) for a in range(256) for b in (0, 9, 10, 99, 100, 255)]
    for a, o in zip(a4, ctx.model.batch('c18_ntop4', a4)):
        if socket.inet_ntop(socket.AF_INET, a).encode() != B(o):
            ctx.mismatch('text-ntop4', dict(addr=a), socket.inet_ntop(socket.AF_INET, a), B(o))
    ctx.evaluations += len(a4)
    # the model's encoders against the independent ones above (so that the theorems speak about real headers)
    h1 = []
    for _ in range(200 if ctx.quick else 3000):
        k = rng.choice([0, 1, 2])
        if k == 0:
            s, d, sp, dp = rng.choice(IP4S), bytes(rng.randrange(256) for _ in range(4)), rng.choice(PORTS), rng.randrange(65536)
            h1.append(([0, s, d, sp, dp], enc_v1('tcp4', s, d, sp, dp)))
        elif k == 1:
            s, d, sp, dp = rand_ip6(rng), rand_ip6(rng), rng.choice(PORTS), rng.randrange(65536)
            h1.append(([1, s, d, sp, dp], enc_v1('tcp6', s, d, sp, dp)))
        else:
            r = rng.choice(UNKNOWN_RESTS)
            h1.append(([2, r], enc_v1('unknown', rest=r)))
    for (hv, wire), o in zip(h1, ctx.model.batch('c18_enc1', [h for h, _ in h1])):
        wf_expected = not (hv[0] == 2 and (len(hv[1]) > 92 or b'\r\n' in hv[1] + b'\r'))
        if B(o[1]) != wire or bool(o[0]) != wf_expected:
            ctx.mismatch('enc-v1', dict(hdr=hv), (wf_expected, wire), (o[0], B(o[1])))
        elif o[0]:
            sp_ = spec_v1(wire + b'XYZ')
            if sp_ is None or sp_[0] != 'ok' or sp_[3] != len(wire):
                ctx.mismatch('enc-v1-not-well-formed', dict(hdr=hv), sp_, wire)
    ctx.evaluations += len(h1)
    h2 = []
    for _ in range(200 if ctx.quick else 3000):
        k = rng.choice([0, 1, 2, 3, 4])
        tlv = bytes(rng.randrange(256) for _ in range(rng.choice([0, 1, 5, 30])))
        pr = rng.choice([1, 2])
        if k == 0:
            s, d, sp, dp = rng.choice(IP4S), bytes(rng.randrange(256) for _ in range(4)), rng.choice(PORTS), rng.randrange(65536)
            h2.append(([0, pr, s, d, sp, dp, tlv], enc_v2(0x21, 0x10 + pr, s + d + struct.pack('!HH', sp, dp) + tlv)))
        elif k == 1:
            s, d, sp, dp = rand_ip6(rng), rand_ip6(rng), rng.choice(PORTS), rng.randrange(65536)
            h2.append(([1, pr, s, d, sp, dp, tlv], enc_v2(0x21, 0x20 + pr, s + d + struct.pack('!HH', sp, dp) + tlv)))
        elif k == 2:
            s, d = rng.choice(PATHS), rng.choice(PATHS)
            h2.append(([2, pr, s, d, tlv], enc_v2(0x21, 0x30 + pr, pad(s) + pad(d) + tlv)))
        elif k == 3:
            h2.append(([3, tlv], enc_v2(0x21, 0x00, tlv)))
        else:
            h2.append(([4, tlv], enc_v2(0x20, 0x00, tlv)))
    for (hv, wire), o in zip(h2, ctx.model.batch('c18_enc2', [h for h, _ in h2])):
        if B(o[1]) != wire or not o[0]:
            ctx.mismatch('enc-v2', dict(hdr=hv), wire, (o[0], B(o[1])))
        else:
            sp_ = spec_v2(wire + b'XYZ')
            if sp_ is None or sp_[0] not in ('ok', 'local') or sp_[-1] != len(wire):
                ctx.mismatch('enc-v2-not-well-formed', dict(hdr=hv), sp_, wire)
    ctx.evaluations += len(h2)
    # parse_pp_line (public) directly
    lines = [valid_v1(rng) for _ in range(100 if ctx.quick else 2000)]
    lines += [b'PROXY ' + b' '.join([b'TCP4', b'1.2.3.4', b'5.6.7.8', j, b'25']) + b'\r\n' for j in V1_FIELD_JUNK]
    lines += [b'PROXY UNKNOWN', b'NOPROXY UNKNOWN\r\n', b'', b'\r\n', b'PROXY \r\n', b'PROXY', b'PROXY \r', b'PROXY UNKNOWN\r\n\r\n', b'PROXY TCP4 1.2.3.4 1.2.3.4 1 2\r\nX\r\n']
    for l, o in zip(lines, ctx.model.batch('c18_line', lines)):
        try:
            src, dst = ProxyProtocolV1.parse_pp_line(l)
            got = ('ok', caddr(src), caddr(dst), 0)
        except AssertionError as ex:
            got = ('assert', MESSAGES.get(str(ex), str(ex)), 0)
        except BaseException as ex:   # noqa
            got = ('exc', type(ex).__name__, 0)
        if got != model_out(o):
            ctx.mismatch('parse_pp_line', dict(line=l), got, model_out(o))
    ctx.evaluations += len(lines)


# ------------------------------------------------------------------ concurrent connections
class GateSocket(PPSocket):
    """A connection among several.  recv_into parks its greenlet at a gate until
    the harness lets this connection continue.
    segs given : the stream arrives in these TCP segments; the gate is reached
                 whenever the bytes delivered so far are used up (as a real gevent
                 socket yields only when nothing is readable); being released
                 delivers the next segment (or EOF after the last).
    segs None  : everything is readable; the gate is reached at EVERY recv_into
                 and `sched` gives the short-read sizes as for PPSocket."""

    def __init__(self, idx, data, segs, sched, order):
        PPSocket.__init__(self, data, sched)
        self.idx = idx
        self.segs = None if segs is None else list(segs)
        self.delivered = 0 if segs is not None else len(self.data)
        self.gate = Event()
        self.parked = False
        self.order = order

    def _park(self):
        self.parked = True
        self.gate.clear()
        self.gate.wait()

    def _take(self, n):
        if self.segs is None:
            self._park()
        elif self.pos >= self.delivered:
            self._park()
            if self.segs:
                self.delivered += self.segs.pop(0)
        self.order.append(self.idx)
        k = max(1, self.sched.pop(0)) if self.sched else INF
        m = min(n, k, self.delivered - self.pos)
        self.requests.append((n, m))
        out = self.data[self.pos:self.pos + m]
        self.pos += m
        return out


def cut_lengths(n, cuts):
    cuts = sorted(set(c for c in cuts if 0 < c < n))
    pts = [0] + cuts + [n]
    return [b - a for a, b in zip(pts, pts[1:])]


def run_concurrent(conns, prefix):
    """conns: [(variant, data, segs or None, sched)].  prefix: which connection is released at
    each gate decision (beyond it: the lowest waiting one).  -> (outcomes, picks, waiting sets, order, socks)"""
    order = []
    socks = [GateSocket(i, d, segs, sched, order) for i, (v, d, segs, sched) in enumerate(conns)]
    outs = [None] * len(conns)

    # ONE edge object per class serves all its connections, as an EdgeServer does
    shared = {}
    for v, _d, _segs, _sched in conns:
        if v not in shared:
            shared[v] = EDGES[v]()
            shared[v].got = None
            shared[v].seen = {}

    def serve(i):
        e = shared[conns[i][0]]
        try:
            e.handle(socks[i], None)
        except BaseException as ex:   # noqa
            outs[i] = ('exc', type(ex).__name__, socks[i].pos)
            return
        got = e.seen.get(socks[i])
        outs[i] = ('drop', socks[i].pos) if got is None else ('call', caddr(got[0]), got[1])

    gs = [gevent.spawn(serve, i) for i in range(len(conns))]
    picks, waits = [], []
    while True:
        spins = 0
        while any(not g.dead and not s.parked for g, s in zip(gs, socks)):
            gevent.sleep(0)
            spins += 1
            if spins > 10000:
                raise RuntimeError('concurrent run does not quiesce')
        waiting = [i for i, (g, s) in enumerate(zip(gs, socks)) if not g.dead and s.parked]
        if not waiting:
            break
        t = len(picks)
        i = prefix[t] if t < len(prefix) and prefix[t] in waiting else waiting[0]
        picks.append(i)
        waits.append(waiting)
        socks[i].parked = False
        socks[i].gate.set()
    return outs, picks, waits, order, socks


def all_interleavings(conns, limit):
    """every sequence of gate decisions, depth first"""
    out = []
    stack = [[]]
    while stack and len(out) < limit:
        prefix = stack.pop()
        res = run_concurrent(conns, prefix)
        out.append(res)
        picks, waits = res[1], res[2]
        for t in range(len(prefix), len(picks)):
            for j in waits[t]:
                if j != picks[t]:
                    stack.append(picks[:t] + [j])
    return out


VARIANT_NO = {'v1': 0, 'v2': 1, 'auto': 2}


def judge_concurrent(ctx, conns, res, solo, label):
    outs, picks, waits, order, socks = res
    case = dict(kind='concurrent', conns=[[v, d, segs, list(sched)] for v, d, segs, sched in conns], picks=list(picks))
    ctx.count('case:' + label)
    ctx.evaluated(('conc', tuple((v, d, tuple(segs) if segs is not None else None, tuple(sched)) for v, d, segs, sched in conns), tuple(picks)))
    for i, (v, d, segs, sched) in enumerate(conns):
        if outs[i] != solo[i]:
            ctx.fail('c18:connections-interfere', dict(case, connection=i),
                     'connection %d (%s, %r...) served next to %d other connection(s): handle did %r, alone on the same byte stream it does %r' % (
                         i, v, d[:24], len(conns) - 1, outs[i], solo[i]))
        elif socks[i].bad_request:
            ctx.fail('c18:connections-interfere', dict(case, connection=i), 'recv_into asked for more than its buffer holds: %r' % (socks[i].bad_request,))
    return case


def model_concurrent(ctx, jobs):
    """jobs: [(case, conns, res)] - the same global order of recv_into calls and the same read sizes through the model"""
    inputs = []
    for case, conns, res in jobs:
        outs, picks, waits, order, socks = res
        inputs.append([[[VARIANT_NO[v], d, [max(1, m) for (_, m) in socks[i].requests]] for i, (v, d, segs, sched) in enumerate(conns)], list(order)])
    for (case, conns, res), o in zip(jobs, ctx.model.batch('c18_conc', inputs)):
        outs = res[0]
        mo = []
        for c in o[0]:
            mo.append(handle_view(model_out(c[1])) if c[0] == 1 else ('unfinished', c[1], c[2]))
        if list(outs) != mo or o[1] != 0:
            ctx.mismatch('concurrent', case, list(outs), dict(model=mo, picks_on_finished_readers=o[1]))


def conc_streams():
    v1 = enc_v1('tcp4', IP4S[2], IP4S[3], 4321, 25)
    v2 = enc_v2(0x21, 0x11, IP4S[5] + IP4S[3] + struct.pack('!HH', 50000, 25))
    return [
        ('v1', v1 + b'EHLO a\r\n'),
        ('v2', v2 + b'EHLO b\r\n'),
        ('v1', enc_v1('unknown', rest=b' x') + b'\r\n'),
        ('v2', enc_v2(0x20, 0x00, b'') + b'QUIT\r\n'),
        ('v1', b'GET / HTTP/1.0\r\n\r\n'),
        ('v1', v1[:17]),
        ('v2', enc_v2(0x21, 0x21, IP6S[3] + IP6S[1] + struct.pack('!HH', 1, 2) + b'\x04\x00\x01\x00') + b'x'),
        ('v1', enc_v1('tcp6', IP6S[3], IP6S[4], 1000, 9) + b'EHLO c\r\n'),
    ]


def gen_concurrent(ctx):
    """2 connections, <= 3 TCP segments each, ALL interleavings of the segment arrivals; then 2-3
    connections gated at every recv_into with random schedules"""
    rng = ctx.rng
    streams = conc_streams()
    pool = streams[:6] if ctx.quick else streams
    cutsets = [()] + [(a,) for a in (3, 6, 8, 16)] + [(a, b) for a, b in itertools.combinations((3, 6, 8, 16), 2)]
    cutsets_b = [(), (8,), (3, 8), (6, 16)] if ctx.quick else cutsets
    jobs = []
    solo_cache = {}

    def solo_of(conn):
        key = (conn[0], conn[1], tuple(conn[2]) if conn[2] is not None else None, tuple(conn[3]))
        if key not in solo_cache:
            solo_cache[key] = run_concurrent([conn], [])[0][0]
        return solo_cache[key]

    n_int = 0
    for (na, da), (nb, db) in itertools.product(pool, repeat=2):
        for ca in cutsets:
            for cb in cutsets_b:
                va = 'auto' if (len(ca) + len(cb)) % 3 else na
                vb = 'auto' if (len(ca) + 2 * len(cb)) % 3 != 1 else nb
                conns = [(va, da, cut_lengths(len(da), ca), []), (vb, db, cut_lengths(len(db), cb), [])]
                solo = [solo_of(c) for c in conns]
                for res in all_interleavings(conns, 400):
                    n_int += 1
                    case = judge_concurrent(ctx, conns, res, solo, 'concurrent-2-all-interleavings')
                    if n_int % (7 if ctx.quick else 3) == 0:
                        jobs.append((case, conns, res))
    # a malformed header next to a well-formed one on the same edge object, every order of arrival:
    # in particular the malformed connection finishing last
    good = [streams[0][1], streams[1][1], streams[7][1]]
    bad = [b'PROXY TCP4 1.2.3.4 5.6.7.8 1 99999\r\nEHLO\r\n',
           enc_v2(0x21, 0x13, IP4S[2] + IP4S[3] + struct.pack('!HH', 1, 2)) + b'EHLO\r\n',
           b'\r\n\r\n\x00\r\nXUIT\n' + b'\x21\x11\x00\x0c' + IP4S[2] + IP4S[3] + struct.pack('!HH', 1, 2),
           streams[0][1][:30], streams[1][1][:20]]
    n_bad = 0
    for g, b_ in itertools.product(good, bad):
        own = lambda d: 'v1' if d.startswith(b'PROXY') else 'v2'
        classes = ['auto'] + ([own(g)] if own(g) == own(b_) else [])
        for cls in classes:
            for first, second in ((g, b_), (b_, g)):
                for ca in ((), (8,), (3, 8), (6, 16), (16,)):
                    for cb in ((), (8,), (3, 8), (16,)):
                        conns = [(cls, first, cut_lengths(len(first), ca), []), (cls, second, cut_lengths(len(second), cb), [])]
                        solo = [solo_of(c) for c in conns]
                        for res in all_interleavings(conns, 400):
                            n_bad += 1
                            case = judge_concurrent(ctx, conns, res, solo, 'concurrent-malformed-next-to-well-formed')
                            if n_bad % 11 == 0:
                                jobs.append((case, conns, res))
    ctx.count('concurrent:interleavings-malformed-with-well-formed', n_bad)
    ctx.count('concurrent:interleavings-2-connections', n_int)
    ctx.sample(dict(kind='concurrent', connections=[dict(variant='auto', data=streams[0][1], segments=[6, 2, 32]), dict(variant='auto', data=streams[1][1], segments=[36])],
                    note='all orders in which the segments of the two connections arrive'))
    # gate at every recv_into, 2-3 connections, random short reads and random schedule
    for _ in range(250 if ctx.quick else 6000):
        k = rng.choice([2, 3, 3])
        conns = []
        for _c in range(k):
            name, d = rng.choice(streams)
            if rng.random() < 0.3:
                d = (valid_v1(rng) if rng.random() < 0.5 else valid_v2(rng, 20)) + rng.choice(PAYLOADS[:6])
                name = 'v1' if d.startswith(b'PROXY') else 'v2'
            if rng.random() < 0.25:
                d = rng.choice(bad)
                name = 'v1' if d.startswith(b'PROXY') else 'v2'
            conns.append((rng.choice(['auto', 'auto', name]), d, None, rand_sched(rng, min(len(d), 60))))
        if rng.random() < 0.5:
            conns = [('auto', d, segs, sc) for (_v, d, segs, sc) in conns]      # all on one edge object
        prefix = [rng.randrange(k) for _p in range(rng.choice([0, 10, 40, 200]))]
        res = run_concurrent(conns, prefix)
        solo = [run_concurrent([c], [])[0][0] for c in conns]
        case = judge_concurrent(ctx, conns, res, solo, 'concurrent-every-call-random')
        jobs.append((case, conns, res))
        for i, c in enumerate(conns):     # and the specification, per connection
            judge(ctx, c[0], c[1], [max(1, m) for (_, m) in res[4][i].requests], res[0][i])
    model_concurrent(ctx, jobs)
    ctx.count('concurrent:compared-with-model', len(jobs))


# ------------------------------------------------------------------ readers built with mixin()
class RecEdge(EdgeServer):
    """the wrapped edge of the mixin() runs: records what handle() is given"""

    def __init__(self):
        super(RecEdge, self).__init__(None, None, hostname='verif')
        self.got = None

    def handle(self, sock, addr):
        self.got = (addr, sock.pos)


MIXINS = {'v1': ProxyProtocolV1, 'v2': ProxyProtocolV2, 'auto': ProxyProtocol}
MIXIN_HISTORY = []       # every mixin() call of this process, in order


def mixed_edge(variant):
    e = RecEdge()
    MIXINS[variant].mixin(e)
    MIXIN_HISTORY.append(variant)
    return e


def edge_handle(e, data, sched):
    e.got = None
    s = PPSocket(data, sched)
    try:
        e.handle(s, None)
    except BaseException as ex:   # noqa
        return ('exc', type(ex).__name__, s.pos)
    if e.got is None:
        return ('drop', s.pos)
    return ('call', caddr(e.got[0]), e.got[1])


def mixin_streams():
    return [enc_v1('tcp4', IP4S[2], IP4S[3], 4321, 25) + b'EHLO a\r\nMAIL FROM:<a@b>\r\n',
            enc_v2(0x21, 0x11, IP4S[5] + IP4S[3] + struct.pack('!HH', 50000, 587) + b'\x04\x00\x03abc') + b'EHLO b\r\nMAIL FROM:<a@b>\r\n',
            enc_v1('unknown') + b'x',
            enc_v2(0x20, 0x00, b'') + b'x',
            enc_v2(0x21, 0x31, pad(b'/a') + pad(b'/b')) + b'x',
            b'HELO there\r\n']


def check_mixed(ctx, e, variant, index):
    def wf_first(d):
        sp_ = spec(variant, d)
        return 0 if sp_ is not None and sp_[0] == 'ok' and sp_[1] != ('none',) else 1
    for data in sorted(mixin_streams(), key=wf_first):
        for sched in ([], [1] * 400, [3] * 200):
            got = edge_handle(e, data, sched)
            want = impl_handle(variant, data, sched)
            ctx.evaluated(('mixin', index, variant, data, len(sched)))
            ctx.count('case:mixin')
            if got != want or not isinstance(e, MIXINS[variant]):
                ctx.fail('c18:mixin-selects-wrong-parser',
                         dict(kind='mixin', history=list(MIXIN_HISTORY[:index + 1]), variant=variant, data=data, sched=list(sched)),
                         '%s.mixin(edge) as mixin() call number %d of the process (before it: %s): the edge is a %s and handle did %r; the statically subclassed %s reader does %r' % (
                             MIXINS[variant].__name__, index + 1, ','.join(MIXIN_HISTORY[:index]) or 'none', type(e).__name__, got, MIXINS[variant].__name__, want))
                return


def gen_mixin(ctx):
    """V1 / V2 / auto mixed into instances of ONE edge class, in every order, with repetitions"""
    for perm in itertools.permutations(['v1', 'v2', 'auto']):
        made = []
        for v in perm + perm[::-1] + perm:
            made.append((v, mixed_edge(v), len(MIXIN_HISTORY) - 1))
        for v, e, index in made:           # all edges of the round exist before any is used
            check_mixed(ctx, e, v, index)
    ctx.count('mixin:calls', len(MIXIN_HISTORY))



# ------------------------------------------------------------------ what the wrapped handler does
class AppAssertion(AssertionError):
    pass


HANDLER_MODES = {0: None, 1: AssertionError, 2: AppAssertion, 3: RuntimeError, 4: LocalConnection, 5: OSError}
MODE_NAMES = {0: 'returns', 1: 'raises AssertionError', 2: 'raises a subclass of AssertionError', 3: 'raises RuntimeError',
              4: 'raises LocalConnection', 5: 'raises OSError'}


class _OutcomeBase(object):
    """wrapped handler with a prescribed outcome: records the call, reads `consume` payload bytes, returns or raises"""

    def handle(self, sock, addr):
        self.calls.append((caddr(addr), sock.pos))
        if self.consume:
            sock.recv(self.consume)
        if self.exc is not None:
            raise self.exc


class OutV1(ProxyProtocolV1, _OutcomeBase):
    pass


class OutV2(ProxyProtocolV2, _OutcomeBase):
    pass


class OutAuto(ProxyProtocol, _OutcomeBase):
    pass


OUT_EDGES = {'v1': OutV1, 'v2': OutV2, 'auto': OutAuto}


def impl_handle_outcome(variant, data, sched, mode, consume):
    """-> (how handle() ended, [(address, bytes consumed at the call)], bytes consumed at the end)"""
    e = OUT_EDGES[variant]()
    e.calls = []
    e.consume = consume
    e.exc = HANDLER_MODES[mode]('application failure') if mode else None
    s = PPSocket(data, sched)
    try:
        e.handle(s, None)
    except BaseException as ex:   # noqa
        end = ('propagated', mode) if ex is e.exc else ('other-exception', type(ex).__name__)
    else:
        end = ('returned',)
    return end, list(e.calls), s.pos


def model_handle_out(o):
    e = o[0]
    end = {0: ('returned',), 1: ('propagated', e[1] if len(e) > 1 else None), 2: ('other-exception', EXC_NAMES.get(e[1] if len(e) > 1 else None, '?')), 3: ('fuel',)}[e[0]]
    return end, [(maddr(c[0]), c[1]) for c in o[1]], o[2]


def judge_handler(ctx, variant, data, sched, mode, consume, got, plain):
    """exactly one call of the wrapped handler, with the header's address, its outcome is handle()'s outcome"""
    end, calls, pos = got
    sp = spec(variant, data)
    case = dict(kind='handler', variant=variant, data=data, sched=list(sched), mode=mode, consume=consume)
    key = 'c18:wrapped-handler-called-twice-or-with-wrong-address'
    what = None
    if sp is not None and sp[0] == 'local':
        if calls or end != ('returned',):
            what = 'LOCAL header: expected no call and a normal return, got calls %r, handle() %r' % (calls, end)
    else:
        if len(calls) != 1:
            what = 'the wrapped handler (which %s) was called %d times: %r; handle() %r' % (MODE_NAMES[mode], len(calls), calls, end)
        else:
            if sp is not None and sp[0] == 'ok':
                if not addr_matches(sp[1], calls[0][0]) or calls[0][1] != sp[3]:
                    what = 'well-formed header (source %r, %d bytes): the wrapped handler was called with %r after %d bytes' % (sp[1], sp[3], calls[0][0], calls[0][1])
            elif sp is None:
                if calls[0][0] != ('none',) or calls[0][1] > bound(variant, data):
                    what = 'malformed header: the wrapped handler was called with %r after %d bytes' % calls[0]
            want_end = ('returned',) if mode == 0 else ('propagated', mode)
            if what is None and end != want_end:
                what = 'the wrapped handler %s, but handle() ended with %r' % (MODE_NAMES[mode], end)
        if what is None and calls[:1] != plain[1][:1]:
            what = 'call %r differs from the call %r made when the wrapped handler simply returns' % (calls[:1], plain[1][:1])
    if what:
        ctx.fail(key, case, what)


def gen_handler_outcomes(ctx):
    """the wrapped handler returns / raises AssertionError / raises something else, with or without reading payload"""
    rng = ctx.rng
    streams = [d for _, d in conc_streams()] + mixin_streams() + [b'PROXY TCP4 1.2.3.4 5.6.7.8 1 99999\r\nEHLO\r\n', SIG + b'\x21\x11\x00\x04abcdEHLO\r\n', b'', b'PROXY UNKNOWN\r\n']
    for _ in range(60 if ctx.quick else 1500):
        streams.append((valid_v1(rng) if rng.random() < 0.5 else valid_v2(rng, 20)) + rng.choice(PAYLOADS[:6]))
    jobs = []
    for d in streams:
        own = 'v1' if d.startswith(b'PROXY') else 'v2'
        for variant in (own, 'auto'):
            for sched in ([], [1] * 400, rand_sched(rng, 60)):
                plain = impl_handle_outcome(variant, d, sched, 0, 0)
                for mode in HANDLER_MODES:
                    for consume in (0, 3):
                        got = plain if (mode, consume) == (0, 0) else impl_handle_outcome(variant, d, sched, mode, consume)
                        ctx.count('case:handler-outcome')
                        ctx.count('handler:' + MODE_NAMES[mode])
                        ctx.evaluated(('handler', variant, d, tuple(sched), mode, consume))
                        judge_handler(ctx, variant, d, sched, mode, consume, got, plain)
                        jobs.append((variant, d, sched, mode, consume, got))
    outs = ctx.model.batch('c18_handle', [[VARIANT_NO[v], d, [min(k, 70000) for k in sc], m, c] for v, d, sc, m, c, _ in jobs])
    for (v, d, sc, m, c, got), o in zip(jobs, outs):
        mo = model_handle_out(o)
        if mo != got:
            ctx.mismatch('handler-outcome', dict(kind='handler', variant=v, data=d, sched=list(sc), mode=m, consume=c), got, mo)
    ctx.sample(dict(kind='handler-outcome', variant='auto', data=streams[0], handler='records the call, reads 3 bytes, raises AssertionError',
                    expected='one call with the header address, AssertionError propagates'))



def run(ctx):
    ctx.extra['rule'] = (
        'cases = (class in {ProxyProtocolV1, ProxyProtocolV2, ProxyProtocol}, byte stream, short-read schedule). Streams: valid v1/v2 headers with boundary values of '
        'every field (addresses, ports, UNKNOWN tails, UNIX paths, TLV tails, both transport protocols) + payload; every v2 declared length 0..300 and a sample to 65535, '
        'complete and truncated; every single-byte replacement (all 256 values), deletion, insertion and every truncation of 9 valid headers; lenient/malformed spellings of '
        'each v1 field; every value of the v2 version/command and family/protocol bytes; random garbage with PROXY/signature prefixes; schedules: none, all-1, all-2, random, '
        'and every distinct short-read behaviour for headers of 15-24 bytes. Compared with the model: (src, dst) or the AssertionError message or LocalConnection from '
        'process_pp_v1/process_pp_v2, the address handle() passes on, bytes consumed at that moment. Oracle: independent recogniser of the specification. '
        'Concurrent connections: 2 connections x <= 3 TCP segments each x ALL orders of segment arrival (each connection parked inside recv_into until the harness releases it), and 2-3 connections gated at every recv_into with seeded random schedules; per connection the outcome must be what the same stream gives alone, and the model (run_conns with the observed order of recv_into calls) must agree. '
        'Wrapped handler outcomes: for v1/v2/invalid/LOCAL streams x class x schedule the wrapped handler returns, raises AssertionError, a subclass of it, RuntimeError, LocalConnection or OSError, with or without first reading payload: exactly one call (none for LOCAL) with the header address at the header boundary, and handle() ends as that call ended (same exception object); compared with the model (run_h). '
        'mixin(): V1/V2/auto mixed into instances of one recording EdgeServer subclass in all 6 orders with repetitions, each edge compared with the statically subclassed reader. '
        'distinct_nontrivial counts distinct (class, stream, schedule) whose stream starts with "PROXY " or the v2 signature prefix, every concurrent run and every mixin run')
    ctx.extra['trusted_base'] = [
        'libc inet_pton/inet_ntop (IPv4 and IPv6 text): modelled by the glibc 2.36 algorithms written in Gallina (model/Proxy.v: pton4, ntop4, glibc_pton6, glibc_ntop6); C18_ip6_glibc proves the IPv6 pair satisfies the hypothesis of the exactness theorems; agreement with the running libc is differential (this run)',
        'Python semantics taken as modelled: bytes.split/startswith/endswith/rstrip/isdigit, int() on ASCII digits, struct.unpack raising struct.error on short input, str.decode("ascii"), socket.inet_pton raising ValueError on NUL; exception flow (try/except) is explicit in the model',
        'fake socket harness/props/c18.py:PPSocket',
    ]
    check_text(ctx)
    gen_boundary(ctx)
    gen_v1_fields(ctx)
    gen_v2_bytes(ctx)
    gen_v2_lengths(ctx)
    gen_corruptions(ctx)
    gen_random_valid(ctx, 1500 if ctx.quick else 40000)
    gen_garbage(ctx, 2000 if ctx.quick else 60000)
    gen_all_schedules(ctx)
    gen_mixin(ctx)
    gen_handler_outcomes(ctx)
    gen_concurrent(ctx)


def replay(ctx, case):
    c = case.get('case', case)

    def unhex(x):
        return bytes.fromhex(x['hex']) if isinstance(x, dict) else x
    if c.get('kind') == 'concurrent':
        conns = [(v, unhex(d), segs, list(sched)) for v, d, segs, sched in c['conns']]
        res = run_concurrent(conns, list(c['picks']))
        print('gate decisions (which connection continues):', res[1])
        print('global order of recv_into calls           :', res[3])
        for i, conn in enumerate(conns):
            print('connection %d: %s stream=%r segments=%r' % (i, conn[0], conn[1], conn[2]))
            print('   concurrently: %r   recv_into (asked, got): %r' % (res[0][i], res[4][i].requests))
            print('   alone       : %r' % (run_concurrent([conn], [])[0][0],))
        if ctx.model:
            o = ctx.model.call('c18_conc', [[[VARIANT_NO[v], d, [max(1, m) for (_, m) in res[4][i].requests]] for i, (v, d, segs, sched) in enumerate(conns)], list(res[3])])
            print('model        :', [handle_view(model_out(x[1])) if x[0] == 1 else ('unfinished',) + tuple(x[1:]) for x in o[0]])
        return 0
    if c.get('kind') == 'handler':
        data = unhex(c['data']); sched = list(c.get('sched', []))
        print('class          :', OUT_EDGES[c['variant']].__mro__[1].__name__)
        print('stream         :', data)
        print('wrapped handler: records the call, reads %d payload bytes, %s' % (c['consume'], MODE_NAMES[c['mode']]))
        print('specification  :', spec(c['variant'], data))
        end, calls, pos = impl_handle_outcome(c['variant'], data, sched, c['mode'], c['consume'])
        print('calls of the wrapped handler (address, bytes consumed before):', calls)
        print('handle() ended :', end, ' bytes consumed:', pos)
        if ctx.model:
            print('model          :', model_handle_out(ctx.model.call('c18_handle', [VARIANT_NO[c['variant']], data, sched, c['mode'], c['consume']])))
        return 0
    if c.get('kind') == 'mixin':
        data = unhex(c['data']); sched = list(c.get('sched', []))
        e = None
        for v in c['history']:
            e = mixed_edge(v)
        print('mixin() calls of the process:', c['history'])
        print('last edge is a', type(e).__name__, [k.__name__ for k in type(e).__mro__[:3]])
        print('its handle()            :', edge_handle(e, data, sched))
        print('static %-17s:' % MIXINS[c['variant']].__name__, impl_handle(c['variant'], data, sched))
        return 0
    data = unhex(c['data'])
    sched = list(c.get('sched', []))
    v = c['variant']
    print('class        :', EDGES[v].__mro__[1].__name__)
    print('stream       :', data)
    print('schedule     :', sched)
    print('specification:', spec(v, data), ' bound:', bound(v, data))
    print('handle()     :', impl_handle(v, data, sched))
    if v != 'auto':
        print('process_pp   :', impl_process(v, data, sched))
    if ctx.model:
        print('model        :', model_out(ctx.model.call('c18_' + v, [data, sched])))
    return 0
