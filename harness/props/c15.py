"""C15 - every queue storage backend behaves like the same simple store.

Correspondence: the four REAL backends (DictStorage; DiskStorage on a temp dir;
RedisStorage over storefakes.FakeRedis; CloudStorage over
storefakes.FakeObjectStore + FakeMsgQueue) against the Coq models of
coq/model/Store.v / Disk.v on the same operation sequences, including the
file-system effect log of DiskStorage and interleaved (gated) operations on
different ids for the three yielding backends.
Oracle: an independent reference store written here in Python (the property
statement), evaluated on what the implementation returned."""
import contextlib, itertools, logging
logging.disable(logging.CRITICAL)
import gevent
from vp.core import B, U
from vp import storefakes as sf

import slimta.queue.dict as dictmod
import slimta.redisstorage as redismod
import slimta.cloudstorage as cloudmod

ASSUMPTIONS = [
    'DictStorage is run over plain dicts and (dict-shelve) over copy-on-access mappings: a pickling MutableMapping, and real shelve files closed and re-opened by a fresh DictStorage after every operation',
    'every write() is handed a fresh Envelope object that the caller does not mutate afterwards (DictStorage stores and returns that very object)',
    'updates and removes address live messages; the indexes of a marking round are distinct and inside the recipient list get() currently returns (what Queue._handle_partial_relay computes); get may address any id',
    'set_recipients_delivered takes an "iterable of indexes": the same index sets are passed as list, tuple, set, frozenset, range, dict keys view, generator expression, iter(list), filter object, map object and a user-defined iterable class. The model sees the list of indexes one traversal yields; that one-shot iterables are traversed once only is exercised by the harness, "consumed twice" is not expressible in the model',
    'RedisStorage is run with a rotating set of key prefixes (empty, with and without a trailing colon, containing colons, slashes, dots, regex and glob metacharacters * and ?); a prefix containing "[" is probed and reported, not judged (KEYS takes a glob)',
    'disk, variant "two handles": two simultaneously live DiskStorage objects on the same directories, operations alternating between them, a fresh one at the end - outside the property as written (it speaks of a backend answering a sequence of operations, and of a NEW queue after a crash), judged because a deploy overlaps the old and the new process',
    'recipient-count dimension: envelopes with 9 to 100 recipients and sparse / dense / complete / empty index sets (indexes beyond 8, 16, 32 and 64), duplicates inside one round, one to three rounds. The model needs no change: index lists are arbitrary lists of naturals, the refinement and round theorems quantify over all of them',
    'uuid4 is steered: the id-allocation loops draw from scripted candidates (collisions with live and removed ids included); mkstemp names are scripted',
    'redis runs come in two variants: announcements left on the list, and consumed by wait() before every load(); ids returned by load()/wait() are compared with == and type identity against what write() returned',
    'redis: besides the FakeRedis method-level stand-in, the sequences and an overlap stream run through the REAL redis-py client, GeventConnection and ConnectionPool that RedisStorage constructs, against an in-process RESP server (storefakes.RespServer, loopback socket, a few ms latency per command so that up to 40 operations are in flight at once)',
    'redis and the cloud object store are the fakes of harness/vp/storefakes.py (bytes answers like redis-py; metadata conventions of slimta.cloudstorage.aws); pickling is trusted',
    'timestamps are integers (float(timestamp) of redis compares equal)',
]

BACKENDS = ['dict', 'dict-shelve', 'disk', 'redis', 'cloud']

# RedisStorage(prefix=...): every redis run takes the next one of these.  KEYS takes a GLOB:
# glob metacharacters in a prefix are meant literally (D39: load() escapes them for KEYS)
PREFIXES = ['slimta:', '', 'slimta_', 'mail.example.com/queue/', 'site:a-', 'a:b:c:', 'x.y|z(1)+$^', 'q*r?:', 'tenant 7:queue:', 'k[1]:', 'back\\slash:']
PREFIX_PROBE = 'k[1]:'


# ------------------------------------------------------------ reference store
class Ref(object):
    """the simple reference store of the property statement"""

    def __init__(self):
        self.m = {}          # id -> [sender, rcpts, content, ts, attempts]
        self.dead = set()
        self.ann = []        # (timestamp, id) announced by write(), not yet handed out by wait()
        self.orph = {}       # redis only: half-written entries id -> envelope

    def live(self):
        return sorted(self.m)

    def step(self, o):
        k = o[0]
        if k == 'write':
            for c in o[3]:
                if c not in self.m:
                    s, r, cont = o[1]
                    self.m[c] = [s, list(r), cont, o[2], 0]
                    self.dead.discard(c)
                    self.ann.append((o[2], c))
                    return ('id', c)
            return ('noid',)
        if k == 'load':
            return ('load', tuple(sorted([(e[3], i) for i, e in self.m.items()] + [(o[1], i) for i in self.orph])))
        if k == 'orphan':
            self.orph[o[1]] = o[2]
            return ('unit',)
        if k == 'wait':
            return ('load', (self.ann.pop(0),)) if self.ann else ('load', ())
        id = o[1]
        e = self.m.get(id)
        if k == 'get':
            if e is None and id in self.orph:
                s_, r_, c_ = self.orph[id]
                return ('got', s_, tuple(r_), c_, 0)
            if e is None:
                return ('missing',)
            return ('got', e[0], tuple(e[1]), e[2], e[4])
        if k == 'remove':
            if e is not None:
                del self.m[id]
                self.dead.add(id)
            return ('unit',)
        if e is None:
            return ('missing',)
        if k == 'setts':
            e[3] = o[2]
            return ('unit',)
        if k == 'incr':
            e[4] += 1
            return ('att', e[4])
        if k == 'deliv':
            cur = list(e[1])
            for i in sorted(o[2], reverse=True):
                if i >= len(cur):
                    return ('indexerr',)
                del cur[i]
            e[1] = cur
            return ('unit',)
        raise ValueError(k)


def wf_op(ref, o):
    k = o[0]
    if k in ('write', 'load', 'get', 'wait', 'orphan'):
        return True
    e = ref.m.get(o[1])
    if e is None:
        return False
    if k == 'deliv':
        idxs = list(o[2])
        return len(set(idxs)) == len(idxs) and all(i < len(e[1]) for i in idxs)
    return True


# ------------------------------------------------------------------ encoding
def enc_op(o):
    k = o[0]
    if k == 'write':
        s, r, c = o[1]
        return [0, [s, list(r), c], o[2], list(o[3]), list(o[4])]
    if k == 'setts':
        return [1, o[1], o[2], list(o[3])]
    if k == 'incr':
        return [2, o[1], list(o[2])]
    if k == 'deliv':
        return [3, o[1], list(o[2]), list(o[3])]
    if k == 'load':
        return [4, o[1]]
    if k == 'get':
        return [5, o[1]]
    if k == 'remove':
        return [6, o[1]]
    if k == 'wait':
        return [7]
    if k == 'orphan':
        s_, r_, c_ = o[2]
        return [8, o[1], [s_, list(r_), c_]]
    raise ValueError(k)


MODEL_ERR = {5: ('missing',), 6: ('indexerr',), 7: ('noid',), 8: ('model', 'notmp'), 9: ('model', 'tmpexists'),
             10: ('exc', 'OSError'), 11: ('model', 'corrupt'), 12: ('exc', 'ResponseError')}


def dec_res(v):
    t = v[0]
    if t == 0:
        return ('id', v[1])
    if t == 1:
        return ('unit',)
    if t == 2:
        return ('att', v[1])
    if t == 3:
        return ('load', tuple(sorted((p[0], p[1]) for p in v[1])))
    if t == 4:
        e = v[1]
        return ('got', U(e[0]), tuple(U(x) for x in e[1]), B(e[2]), v[2])
    return MODEL_ERR[t]


CMD = {'exists': 0, 'mktemp': 1, 'write': 2, 'rename': 3, 'unlink': 4, 'read': 5, 'listdir': 6, 'close': 7}


def canon_eff(d):
    """DiskHarness effect description -> canonical form of E_Disk.v_cmd"""
    k = d[0]
    if k in ('exists', 'unlink', 'read'):
        return (CMD[k], d[1])
    if k == 'mktemp':
        return (1, d[1])
    if k == 'write':
        return (2, d[1], d[2], ('B', tuple(d[3])))
    if k == 'rename':
        return (3, d[1], d[2])
    if k == 'close':
        return (7, d[1])
    return (6,)


# ------------------------------------------------------------------ backends
def canon_id(x):
    if isinstance(x, bytes):
        x = x.decode('ascii')
    if x == 'queue':
        return 0
    return int(x)


def canon_ts(t):
    if isinstance(t, float) and t == int(t):
        return int(t)
    return t


class _Indexes(object):
    """a user-defined iterable (no __len__, no __getitem__), re-iterable"""

    def __init__(self, idxs):
        self._idxs = list(idxs)

    def __iter__(self):
        return iter(list(self._idxs))


def _as_range(x):
    x = list(x)
    if x and x == list(range(x[0], x[0] + len(x))):
        return range(x[0], x[0] + len(x))
    return x


# The shapes an "iterable of indexes" can take.  ONE_SHOT ones can be traversed once only.
SHAPES = {
    'set': set, 'list': list, 'tuple': tuple, 'frozenset': frozenset,
    'desc': lambda x: sorted(x, reverse=True),
    'range': _as_range,
    'dictkeys': lambda x: dict.fromkeys(x).keys(),
    'genexpr': lambda x: (i for i in list(x)),
    'iter': lambda x: iter(list(x)),
    'filter': lambda x: filter(lambda i: True, list(x)),
    'map': lambda x: map(int, list(x)),
    'userclass': _Indexes,
}
ONE_SHOT = ('genexpr', 'iter', 'filter', 'map')
UNORDERED = ('set', 'frozenset')


class Clock(object):
    """stands in for the `time` module inside slimta.redisstorage"""
    now = 0

    def time(self):
        return self.now


class Adapter(object):
    """one real backend instance + its substrate fake + choice hub"""

    def __init__(self, name, cfg=None, gates=None):
        self.name = name
        self.cfg = cfg or {}
        self.hub = sf.ChoiceHub()
        self.gates = gates
        self.stack = contextlib.ExitStack()
        self.disk = None
        self.written = {}        # id as int -> the very object write() returned
        if name == 'dict':
            self._patch(dictmod, 'uuid', self.hub)
            self.st = dictmod.DictStorage()
        elif name == 'dict-shelve':
            # DictStorage over mappings that hand out copies: PickleMap, or real shelve files
            self._patch(dictmod, 'uuid', self.hub)
            self.shelf_dir = None
            if self.cfg.get('files'):
                import tempfile, shutil
                self.shelf_dir = tempfile.mkdtemp(prefix='vp-shelve-', dir='/tmp')
                self.stack.callback(shutil.rmtree, self.shelf_dir, True)
                self.shelves = None
                self.stack.callback(self._close_shelves)
                self._open_shelves()
            else:
                self.st = dictmod.DictStorage(sf.PickleMap(), sf.PickleMap())
        elif name == 'redis':
            self._patch(redismod, 'uuid', self.hub)
            self.clock = Clock()
            self._patch(redismod, 'time', self.clock)
            if self.cfg.get('resp'):
                # the REAL redis-py client, GeventConnection and ConnectionPool that RedisStorage
                # builds, talking RESP to an in-process fake server backed by a FakeRedis
                self.fake = sf.FakeRedis()
                self.srv = sf.RespServer.shared()
                self.srv.reset(self.fake, self.cfg.get('latency', 0.0))
                self.stack.callback(self.srv.quiesce)
                self.st = redismod.RedisStorage(host='127.0.0.1', port=self.srv.port, prefix=self.cfg.get('prefix', 'slimta:'))
                self.stack.callback(self.st.redis.connection_pool.disconnect)
            else:
                self.st = redismod.RedisStorage(prefix=self.cfg.get('prefix', 'slimta:'))
                self.fake = sf.FakeRedis(gate=gates)
                self.st.redis = self.fake
        elif name == 'cloud':
            self.fake = sf.FakeObjectStore(self.hub, gate=gates, aws_like=self.cfg.get('aws_like', True))
            self.mq = sf.FakeMsgQueue(self.cfg.get('fails', ()), gate=gates) if self.cfg.get('mq') else None
            self.st = cloudmod.CloudStorage(self.fake, self.mq)
        elif name == 'disk':
            self.disk = self.stack.enter_context(
                sf.DiskHarness(self.hub, codec=self.cfg.get('codec', True), chunk=self.cfg.get('chunk'), gate=gates))
            self.st = self.disk.storage()
            # handles=2: two simultaneously live DiskStorage objects on the same directories
            self.disk.write_rule = self.cfg.get('wrule')
            self.handles = [self.st] + [self.disk.storage() for _ in range(self.cfg.get('handles', 1) - 1)]
            self.nops = 0
        else:
            raise ValueError(name)

    def _patch(self, mod, name, val):
        # a module that no longer has the name (a dropped import) gets it for the run only
        if hasattr(mod, name):
            self.stack.callback(setattr, mod, name, getattr(mod, name))
        else:
            self.stack.callback(lambda: hasattr(mod, name) and delattr(mod, name))
        setattr(mod, name, val)

    def _open_shelves(self):
        import shelve, os
        self.shelves = [shelve.open(os.path.join(self.shelf_dir, n)) for n in ('env', 'meta')]
        self.st = dictmod.DictStorage(self.shelves[0], self.shelves[1])

    def _close_shelves(self):
        for sh in self.shelves or ():
            sh.close()
        self.shelves = None

    def fresh_handle(self):
        """disk: from now on a brand-new DiskStorage on the same directories"""
        if self.disk is not None:
            self.st = self.disk.storage()
            self.handles = [self.st]

    def reopen(self):
        """persistence: close the shelve files and start a fresh DictStorage on them"""
        if self.name == 'dict-shelve' and self.cfg.get('files'):
            self._close_shelves()
            self._open_shelves()

    def close(self):
        sf.FdGuard.sample()
        self.stack.close()

    def do(self, o, form='set'):
        r = self._do(o, form)
        self.reopen()
        return r

    def _do(self, o, form='set'):
        k = o[0]
        st = self.st
        if self.disk is not None and len(self.handles) > 1:
            # operations alternate between the handles (A B B A A B ...)
            st = self.handles[((self.nops * 7) // 3) % len(self.handles)]
            self.nops += 1
        try:
            if k == 'write':
                self.hub.set(sf.Choices(o[3], o[4]))
                rid = st.write(sf.mk_envelope(*o[1]), o[2])
                self.written[int(rid)] = rid
                return ('id', int(rid))
            if k == 'orphan':
                # a writer died between HSETNX envelope and the pipeline: envelope field only
                import pickle
                self.fake.data[(self.st.prefix + '%d' % o[1]).encode()] = {
                    b'envelope': pickle.dumps(sf.mk_envelope(*o[2]), pickle.HIGHEST_PROTOCOL)}
                return ('unit',)
            if k in ('load', 'wait'):
                if self.name == 'redis':
                    self.clock.now = o[1] if k == 'load' else 0
                pairs = list(st.load()) if k == 'load' else list(st.wait())
                # ids must be EQUAL (==, same type) to what write() returned
                for ts, rid in pairs:
                    try:
                        known = self.written.get(canon_id(rid))
                    except ValueError:
                        return ('id-differs', repr(rid), 'not an id write() returned: %r' % sorted(self.written.values()))
                    if not isinstance(rid, str) or (known is not None and (known != rid or type(known) is not type(rid))):
                        return ('id-differs', repr(rid), repr(known))
                pairs = [(canon_ts(ts), canon_id(i)) for ts, i in pairs]
                return ('load', tuple(sorted(pairs) if k == 'load' else pairs))
            id = str(o[1])
            if k == 'get':
                env, att = st.get(id)
                return ('got',) + sf.env_obs(env) + (att,)
            if k == 'remove':
                st.remove(id)
                return ('unit',)
            self.hub.set(sf.Choices((), o[-1]))
            if k == 'setts':
                st.set_timestamp(id, o[2])
                return ('unit',)
            if k == 'incr':
                return ('att', st.increment_attempts(id))
            if k == 'deliv':
                st.set_recipients_delivered(id, SHAPES[form](o[2]))
                return ('unit',)
        except sf.OutOfIds:
            return ('noid',)
        except (KeyError, FileNotFoundError):
            return ('missing',)
        except IndexError:
            return ('indexerr',)
        except Exception as e:
            return ('exc', type(e).__name__)
        raise ValueError(k)


def model_name(b):
    return 'c15_dictcopy' if b == 'dict-shelve' else 'c15_' + b


def model_input(b, ops, ids, cfg):
    v = [[enc_op(o) for o in ops], list(ids)]
    if b == 'cloud':
        v += [1 if cfg.get('mq') else 0, [1 if f else 0 for f in cfg.get('fails', ())]]
    if b == 'disk':
        v += [cfg.get('chunk') or (16 << 10), []]
    return v


# ---------------------------------------------------------------- generators
SENDERS = ['sender@example.com', 'a@b.c', '', 'bounce+x@d.example', 'é@ex.org']
RCPTS = ['r1@example.com', 'r2@example.com', 'r3@ex.org', 'r4@ex.org', 'r1@example.com', 'ü@ex.org']
CONTENTS = [b'Subject: hi\r\n\r\nbody\r\n', b'From: a@b.c\r\nTo: r1@example.com\r\n\r\nline1\r\nline2\r\n',
            b'\r\nno headers\r\n', b'X-A: 1\r\nX-B: 2\r\n\r\n' + b'x' * 40 + b'\r\n', b'Subject: empty\r\n\r\n']


class Gen(object):
    """random mostly-well-formed sequences; tracks the reference to know what is live"""

    def __init__(self, rng, single_round=True, misuse=False):
        self.rng = rng
        self.ref = Ref()
        self.next_id = 1
        self.next_tmp = 1
        self.marked = set()
        self.single_round = single_round
        self.misuse = misuse
        self.forms = []

    def tmps(self):
        t = [self.next_tmp, self.next_tmp + 1]
        self.next_tmp += 2
        return t

    def envelope(self):
        rng = self.rng
        n = rng.choice([0, 1, 2, 2, 3, 3, 4])
        return (rng.choice(SENDERS), tuple(rng.choice(RCPTS) for _ in range(n)), rng.choice(CONTENTS))

    def some_id(self):
        rng = self.rng
        live = self.ref.live()
        r = rng.random()
        if live and r < 0.85:
            return rng.choice(live)
        dead = sorted(self.ref.dead)
        if dead and r < 0.95:
            return rng.choice(dead)
        return self.next_id + 7      # never existed

    def op(self):
        rng = self.rng
        live = self.ref.live()
        kinds = ['write'] * (4 if len(live) < 3 else 1) + ['load'] * 2 + ['get'] * 3
        if live or self.misuse:
            kinds += ['setts'] * 2 + ['incr'] * 3 + ['deliv'] * 3 + ['remove'] * 2 + ['get'] * 2
        k = rng.choice(kinds)
        form = 'set'
        if k == 'write':
            cands = []
            r = rng.random()
            if live and r < 0.2:
                cands += [rng.choice(live) for _ in range(rng.choice([1, 2]))]
            elif self.ref.dead and r < 0.3:
                cands.append(rng.choice(sorted(self.ref.dead)))
            if not (live and rng.random() < 0.04 and cands):
                if not cands or cands[-1] in self.ref.m:
                    cands.append(self.next_id)
                    self.next_id += 1
            o = ('write', self.envelope(), rng.randrange(1, 2000), tuple(cands), tuple(self.tmps()))
        elif k == 'load':
            o = ('load', rng.randrange(5000, 6000))
        elif k == 'get':
            o = ('get', self.some_id())
        else:
            id = self.some_id() if self.misuse else rng.choice(live)
            if k == 'setts':
                o = ('setts', id, rng.randrange(1, 2000), tuple(self.tmps()))
            elif k == 'incr':
                o = ('incr', id, tuple(self.tmps()))
            elif k == 'remove':
                o = ('remove', id)
            else:
                if self.single_round and id in self.marked:
                    o = ('incr', id, tuple(self.tmps()))
                else:
                    e = self.ref.m.get(id)
                    n = len(e[1]) if e else 2
                    idxs = [i for i in range(n) if rng.random() < 0.45]
                    if self.misuse and rng.random() < 0.3:
                        idxs.append(n + rng.randrange(0, 2))
                    form = rng.choice(['set'] * 7 + ['list'] * 2 + ['tuple', 'frozenset', 'range', 'dictkeys', 'genexpr',
                                                                    'iter', 'filter', 'map', 'userclass'])
                    if form not in UNORDERED and form not in ('range', 'dictkeys'):
                        rng.shuffle(idxs)
                        if self.misuse and idxs and rng.random() < 0.2:
                            idxs.append(idxs[0])
                    else:
                        idxs = sorted(set(idxs))
                    self.marked.add(id)
                    o = ('deliv', id, tuple(idxs), tuple(self.tmps()))
        return o, form

    def sequence(self, n):
        ops, forms, exp, wf = [], [], [], True
        for _ in range(n):
            o, form = self.op()
            if not wf_op(self.ref, o):
                wf = False
            if o[0] == 'write':
                # a re-used id starts a new message: it may be marked again
                for c in o[3]:
                    if c not in self.ref.m:
                        self.marked.discard(c)
                        break
            ops.append(o); forms.append(form); exp.append(self.ref.step(o))
        # observation tail
        ids = sorted(set(self.ref.live()) | set(self.ref.dead))[:6]
        for o in [('load', 5555)] + [('get', i) for i in ids]:
            ops.append(o); forms.append('set'); exp.append(self.ref.step(o))
        return ops, forms, exp, wf, ids


def exhaustive_sequences(maxlen):
    """every well-formed single-round sequence over two fixed messages"""
    envs = {1: ('s1@ex.org', ('a@ex.org', 'b@ex.org'), CONTENTS[0]),
            2: ('', ('c@ex.org', 'a@ex.org', 'a@ex.org'), CONTENTS[2])}
    alpha = [('write', envs[1], 10, (1,), (1, 2)), ('write', envs[2], 20, (1, 2), (3, 4)), ('load', 99)]
    for i in (1, 2):
        alpha += [('setts', i, 30 + i, (5, 6)), ('incr', i, (7, 8)), ('deliv', i, (0,), (9, 10)),
                  ('deliv', i, (1,), (9, 10)), ('deliv', i, (0, 1), (9, 10)), ('get', i), ('remove', i)]

    def rec(prefix, ref, marked):
        if prefix:
            yield list(prefix)
        if len(prefix) >= maxlen:
            return
        for o in alpha:
            if not wf_op(ref, o):
                continue
            if o[0] == 'get' and not prefix:
                continue
            if o[0] == 'deliv' and o[1] in marked:
                continue
            r2 = Ref()
            r2.m = {k: [v[0], list(v[1]), v[2], v[3], v[4]] for k, v in ref.m.items()}
            r2.dead = set(ref.dead)
            res = r2.step(o)
            m2 = set(marked)
            if o[0] == 'deliv':
                m2.add(o[1])
            if o[0] == 'write' and res[0] == 'id':
                m2.discard(res[1])
            prefix.append(o)
            for s in rec(prefix, r2, m2):
                yield s
            prefix.pop()
    return rec([], Ref(), set())


# -------------------------------------------------------------------- streams
_seen = {}


def with_orphans(sq, idx):
    """redis variant: half-written entries (ids 900+) appear at deterministic places;
    each is followed by load() and get(orphan), and again at the end"""
    import random
    ops, forms, ids = sq
    rng = random.Random(1000 + idx)
    out, fo = [], []
    orphans = []
    for o, f in zip(ops, forms):
        if len(orphans) < 2 and rng.random() < 0.25:
            oid = 900 + len(orphans)
            env = (rng.choice(SENDERS), tuple(rng.choice(RCPTS) for _ in range(rng.choice([1, 2]))), rng.choice(CONTENTS))
            out.append(('orphan', oid, env)); fo.append('set'); orphans.append(oid)
            out.append(('load', 7000 + oid)); fo.append('set')
            out.append(('get', oid)); fo.append('set')
        out.append(o); fo.append(f)
    if not orphans:
        env = (SENDERS[0], (RCPTS[0],), CONTENTS[0])
        out[0:0] = [('orphan', 900, env)]; fo[0:0] = ['set']; orphans.append(900)
    out += [('load', 7777)] + [('get', i) for i in orphans]; fo += ['set'] * (1 + len(orphans))
    return out, fo, ids


def with_waits(sq):
    """redis variant: the queue's _wait_store greenlet consumes the announcements -
    wait() calls (one per pending announcement) in front of every load()"""
    ops, forms, ids = sq
    ref = Ref()
    out, fo = [], []
    for o, f in zip(ops, forms):
        if o[0] == 'load':
            for _ in range(len(ref.ann)):
                out.append(('wait',)); fo.append('set')
                ref.step(('wait',))
        out.append(o); fo.append(f)
        ref.step(o)
    return out, fo, ids


def fail(ctx, key, case, what):
    """at most 3 recorded cases per key (keeps room for other keys)"""
    _seen[key] = _seen.get(key, 0) + 1
    if _seen[key] <= 3:
        ctx.fail(key, case, what)
    else:
        ctx.count('oracle-fail-more:' + key)


def classify(b, o, got, want):
    """key of an oracle failure: names the failing-input class"""
    k = o[0]
    if k == 'deliv' and got == ('exc', 'TypeError'):
        return 'c15:delivered-marks-not-a-list'
    if k == 'incr' and b == 'cloud' and got == ('missing',):
        return 'c15:cloud-first-increment'
    if b == 'redis' and k == 'load' and got == ('exc', 'ResponseError'):
        return 'c15:redis-load-raises-with-pending-announcements'
    if b == 'redis' and k in ('load', 'wait') and got[0] == 'id-differs':
        return 'c15:redis-load-id-differs-from-write-id'
    return 'c15:%s-%s' % (b, k)


def run_sequences(ctx, seqs, label, judged=True, cfgs=None):
    """seqs: list of (ops, forms, ids).  Runs every backend on every sequence,
    compares with the model (correspondence) and the reference (oracle)."""
    cfgs = cfgs or {}
    all_seqs = seqs
    for b in BACKENDS:
        cfg_list = cfgs.get(b) or ([{}, dict(consume=True), dict(orphans=True), dict(resp=True), dict(resp=True, consume=True)] if b == 'redis' else [{}])
        for ci, cfg in enumerate(cfg_list):
            seqs = all_seqs
            if cfg.get('consume'):
                seqs = [with_waits(sq) for sq in all_seqs]
            if cfg.get('orphans'):
                seqs = [with_orphans(sq, i) for i, sq in enumerate(all_seqs)]
            inputs = [model_input(b, ops, ids, cfg) for ops, forms, ids in seqs]
            mouts = ctx.model.batch(model_name(b), inputs)
            refouts = ctx.model.batch('c15_ref', [[[enc_op(o) for o in ops], list(ids)] for ops, forms, ids in seqs]) if (b == 'dict' and ci == 0) else None
            for si, ((ops, forms, ids), mo) in enumerate(zip(seqs, mouts)):
                if b == 'redis':
                    cfg = dict(cfg, prefix=PREFIXES[(si + ci) % len(PREFIXES)])
                    ctx.count('redis-prefix:%r' % cfg['prefix'])
                ad = Adapter(b, cfg)
                try:
                    ref = Ref()
                    got_all, want_all = [], []
                    marks = [0]
                    ntail = 1 + len(ids)
                    for j_, (o, form) in enumerate(zip(ops, forms)):
                        if cfg.get('handles', 1) > 1 and j_ == len(ops) - ntail:
                            ad.fresh_handle()
                        want = ref.step(o)
                        got = ad.do(o, form)
                        if ad.disk is not None:
                            marks.append(len(ad.disk.log))
                        got_all.append(got); want_all.append(want)
                    if b == 'disk':
                        model_res = [dec_res(x[0]) for x in mo[0]]
                    else:
                        model_res = [dec_res(x) for x in mo[0]]
                    case = dict(stream=label, backend=b, cfg=cfg, ops=ops, forms=forms, ntail=ntail)
                    nontrivial = any(o[0] in ('deliv', 'remove', 'incr') for o in ops)
                    ctx.evaluated((label, b, ci, tuple(ops), tuple(forms)), nontrivial=nontrivial)
                    ctx.count('seq:%s:%s' % (label, b))
                    for o, f in zip(ops, forms):
                        ctx.count('op:' + o[0])
                        if o[0] == 'deliv':
                            ctx.count('marks-shape:' + f)
                    # correspondence
                    if got_all != model_res:
                        j = next(i for i in range(len(ops)) if got_all[i] != model_res[i])
                        ctx.mismatch('results:' + b, dict(case, at=j), got_all[j], model_res[j])
                    elif b == 'disk' and cfg.get('codec', True):
                        for j in range(len(ops)):
                            ie = [canon_eff(d) for d in ad.disk.log[marks[j]:marks[j + 1]]]
                            me = list(mo[0][j][1])
                            if ops[j][0] == 'load':      # os.listdir order is not specified
                                ie = ie[:1] + sorted(ie[1:])
                                me = me[:1] + sorted(me[1:])
                            if ie != me:
                                ctx.mismatch('effects:disk', dict(case, at=j), ie, me)
                                break
                    # the model's reference store against the Python one (oracle sanity)
                    if refouts is not None:
                        rr = [dec_res(x) for x in refouts[si][0]]
                        if rr != want_all:
                            ctx.mismatch('reference', case, want_all, rr)
                    # oracle
                    last_form = {}
                    for j, (o, got, want) in enumerate(zip(ops, got_all, want_all)):
                        if o[0] == 'deliv':
                            last_form[o[1]] = forms[j]
                        if got != want:
                            if judged:
                                key = classify(b, o, got, want)
                                if o[0] == 'get' and last_form.get(o[1]) in ONE_SHOT and got[0] == 'got' and want[0] == 'got' \
                                        and (got[1], got[3], got[4]) == (want[1], want[3], want[4]):
                                    key = 'c15:delivered-marks-lost-for-iterator-argument'
                                if cfg.get('orphans') and o[0] == 'load' and got[0] == 'exc':
                                    key = 'c15:redis-load-raises-on-half-written-entry'
                                if cfg.get('handles', 1) > 1:
                                    key = 'c15:disk-two-handles-%s' % o[0]
                                if label == 'many-recipients' and o[0] == 'get' and key in ('c15:%s-get' % b, 'c15:delivered-marks-lost-for-iterator-argument'):
                                    key = 'c15:delivered-marks-wrong-with-many-recipients'
                                fail(ctx, key, dict(case, at=j),
                                         '%s %r returned %r, the reference store returns %r' % (b, o, got, want))
                            else:
                                ctx.count('misuse-diff:%s:%s' % (b, o[0]))
                                ctx.note('not judged (operation on a dead id / invalid index set): %s %s returns %r where the reference returns %r'
                                         % (b, o[0], got[:2], want[:2]))
                            break
                    if si < 2 and ci == 0 and b == 'disk':
                        ctx.sample(dict(stream=label, backend=b, ops=ops[:6], results=got_all[:6]))
                finally:
                    ad.close()


def stream_random(ctx, n, nops):
    seqs = []
    for i in range(n):
        g = Gen(ctx.rng, single_round=True)
        ops, forms, exp, wf, ids = g.sequence(ctx.rng.randrange(2, nops + 1))
        assert wf
        seqs.append((ops, forms, ids))
    cfgs = {'cloud': [dict(mq=True, fails=(False, True, False)), dict(mq=False, aws_like=False)],
            'disk': [dict(codec=True, chunk=7), dict(codec=False), dict(codec=True, chunk=7, handles=2)],
            'dict-shelve': [{}, dict(files=True)]}
    run_sequences(ctx, seqs, 'random', cfgs=cfgs)


def stream_exhaustive(ctx, maxlen):
    seqs = [(ops, ['set'] * len(ops), [1, 2]) for ops in exhaustive_sequences(maxlen)]
    # every sequence ends with the observation tail
    tail = [('load', 99), ('get', 1), ('get', 2)]
    seqs = [(ops + tail, forms + ['set'] * 3, ids) for ops, forms, ids in seqs]
    run_sequences(ctx, seqs, 'exhaustive', cfgs={'disk': [dict(codec=True, chunk=16)], 'cloud': [dict(mq=True)]})
    return len(seqs)


SPARSE = [(1, 8), (2, 9), (5, 17, 33), (10, 3), (4, 9, 10, 11), (0, 64), (7, 8), (8,), (15, 16, 31, 32), (0,), (8, 99)]


def stream_many_recipients(ctx, counts):
    """the recipient-COUNT dimension: envelopes with many recipients, few / many / all / none of them
    marked (indexes >= 8, 16, 32, 64 included), duplicates inside one round, one to three rounds"""
    rng = ctx.rng
    seqs = []
    for n in counts:
        rc = tuple('r%d@ex.org' % i for i in range(n))
        env = ('s@ex.org', rc, CONTENTS[0])
        sets = [tuple(x) for x in SPARSE if max(x) < n]
        sets += [tuple(range(0, n, 2)), tuple(i for i in range(n) if i % 5), tuple(range(n)), (),
                 (3, 3), (7, 1, 7), tuple(sorted(rng.sample(range(n), min(n, 6))))]
        for k, idxs in enumerate(sets):
            form = ['set', 'list', 'genexpr', 'frozenset', 'tuple', 'iter'][k % 6]
            if len(set(idxs)) != len(idxs):
                form = 'list'                       # duplicates need a sequence
            ops = [('write', env, 5, (1,), (1, 2)), ('deliv', 1, idxs, (3, 4)), ('get', 1)]
            forms = ['set', form, 'set']
            # further rounds, relative to what get() returns now
            left = n - len(set(idxs)) if len(set(idxs)) == len(idxs) else None
            t = 5
            for rd in range(2):
                if left is None or left < 2:
                    break
                nxt = tuple(x for x in ((1, 8), (0, left - 1), (left // 2,), (8, 9, 10))[(k + rd) % 4] if x < left)
                nxt = tuple(dict.fromkeys(nxt))
                if not nxt:
                    break
                ops += [('deliv', 1, nxt, (t, t + 1)), ('get', 1)]
                forms += [['set', 'list', 'genexpr'][(k + rd) % 3], 'set']
                left -= len(nxt)
                t += 2
            ops += [('incr', 1, (t, t + 1)), ('load', 9), ('get', 1)]
            forms += ['set'] * 3
            seqs.append((ops, forms, [1]))
    cfgs = {'disk': [dict(codec=True, chunk=61), dict(codec=False)], 'dict-shelve': [{}],
            'cloud': [dict(mq=True)]}
    run_sequences(ctx, seqs, 'many-recipients', cfgs=cfgs)
    return len(seqs)


def stream_misuse(ctx, n, nops):
    seqs = []
    for i in range(n):
        g = Gen(ctx.rng, single_round=False, misuse=True)
        ops, forms, exp, wf, ids = g.sequence(ctx.rng.randrange(2, nops + 1))
        if wf:
            continue
        seqs.append((ops, forms, ids))
    run_sequences(ctx, seqs, 'misuse', judged=False, cfgs={'disk': [dict(codec=True, chunk=9)]})


def stream_rounds(ctx, maxn):
    """multi-round marking on the real backends: every way to settle n <= maxn
    recipients over 3 rounds; get() after each round against `original minus
    settled` (this is the per-backend round function C03 builds on)."""
    names = ['a@x', 'b@x', 'c@x', 'd@x']
    cases = []
    for n in range(1, maxn + 1):
        for assign in itertools.product(range(4), repeat=n):   # round in which recipient i is settled (3 = never)
            cases.append((n, assign))
    mins = []
    for n, assign in cases:
        cur = list(range(n)); rounds = []
        for rd in range(3):
            idxs = [p for p, i in enumerate(cur) if assign[i] == rd]
            rounds.append(idxs)
            cur = [i for i in cur if assign[i] != rd]
        mins.append((n, rounds))
    mouts = ctx.model.batch('c15_rounds', [[names[:n], [list(r) for r in rounds]] for n, rounds in mins])
    variants = [(b, dict(codec=False) if b == 'disk' else dict(mq=False)) for b in BACKENDS] + [('redis', dict(resp=True))]
    for (b, vcfg), form in [(v, f) for v in variants for f in ('set', 'list', 'genexpr', 'iter', 'userclass')]:
        for (n, assign), (n_, rounds), mo in zip(cases, mins, mouts):
            ad = Adapter(b, vcfg)
            try:
                ad.do(('write', ('s@x', tuple(names[:n]), CONTENTS[0]), 1, (1,), (1, 2)))
                cur = list(range(n))
                ok = True
                got = None
                for rd in range(3):
                    r = ad.do(('deliv', 1, tuple(rounds[rd]), (3 + 2 * rd, 4 + 2 * rd)), form)
                    cur = [i for i in cur if assign[i] != rd]
                    got = ad.do(('get', 1))
                    want = tuple(names[i] for i in cur)
                    case = dict(stream='rounds', backend=b, cfg=vcfg, form=form, rcpts=names[:n], rounds=rounds, after_round=rd)
                    if r != ('unit',) or got[0] != 'got' or got[2] != want:
                        key = 'c15:delivered-marks-not-a-list' if r == ('exc', 'TypeError') else 'c15:multi-round-marks'
                        if form in ONE_SHOT and r == ('unit',):
                            key = 'c15:delivered-marks-lost-for-iterator-argument'
                        fail(ctx, key, case, '%s: after rounds %r get() returned recipients %r, expected %r (original minus settled); mark returned %r'
                                 % (b, rounds[:rd + 1], got[2] if got[0] == 'got' else got, want, r))
                        ok = False
                        break
                ctx.evaluated(('rounds', b, vcfg.get('resp', False), form, n, assign), nontrivial=sum(1 for r in rounds if r) >= 2)
                ctx.count('rounds:' + b + (':resp' if vcfg.get('resp') else ''))
                ctx.count('marks-shape:' + form)
                if ok:
                    mfinal = mo[0] if b.startswith('dict') else mo[1]
                    mwant = tuple(U(x) for x in mfinal[0]) if mfinal else None
                    if mwant != got[2]:
                        ctx.mismatch('rounds:' + b, dict(rcpts=names[:n], rounds=rounds), got[2], mwant)
            finally:
                ad.close()
    return len(cases)


# ----------------------------------------------------- interleaved operations
def thread_ops(rng, j, tmpbase):
    """a thread = write of message j (id 10+j) followed by operations on it"""
    id = 10 + j
    n = rng.choice([1, 2, 3])
    rc = tuple(rng.choice(RCPTS) for _ in range(n))
    t = [tmpbase]

    def tm():
        t[0] += 2
        return (t[0], t[0] + 1)
    ops = [('write', (rng.choice(SENDERS), rc, rng.choice(CONTENTS)), rng.randrange(1, 500), (id,), tm())]
    marked = False
    removed = False
    for _ in range(rng.randrange(1, 5)):
        k = rng.choice(['setts', 'incr', 'incr', 'deliv', 'get', 'get', 'remove'])
        if removed:
            k = 'get'
        if k == 'deliv' and marked:
            k = 'incr'
        if k == 'setts':
            ops.append(('setts', id, rng.randrange(500, 900), tm()))
        elif k == 'incr':
            ops.append(('incr', id, tm()))
        elif k == 'deliv':
            marked = True
            ops.append(('deliv', id, tuple(i for i in range(n) if rng.random() < 0.5), tm()))
        elif k == 'get':
            ops.append(('get', id))
        else:
            removed = True
            ops.append(('remove', id))
    return ops


def reader_ops(rng, nt, base):
    """a thread that only reads: load() and get() of the other threads' messages"""
    ops = []
    for k in range(rng.choice([2, 3, 4])):
        ops.append(('load', base + k))
        if rng.random() < 0.6:
            ops.append(('get', 10 + rng.randrange(nt)))
    return ops


def write_window(b, t0, chunk):
    """number of commands of thread 0's write() after which the envelope is stored
    and the rest (meta / pipeline / announcement) is still to come"""
    if b != 'disk':
        return 1
    env = sf.mk_envelope(*t0[0][1])
    n = len(sf.nc_dumps(env))
    return 1 + 1 + (n + chunk - 1) // chunk + 1        # lexists, mkstemp, chunk writes, rename


def stream_interleaved(ctx, n):
    rng = ctx.rng
    jobs = []
    for _ in range(n):
        nt = rng.choice([2, 2, 3])
        owners = [thread_ops(rng, j, 100 * j) for j in range(nt)]
        readers = [reader_ops(rng, nt, 8000)] if rng.random() < 0.6 else []
        threads = owners + readers
        na = len(threads)
        sch = [rng.randrange(na) for _ in range(rng.choice([60, 200, 400]))] + [j for j in range(na) for _ in range(250)]
        jobs.append((threads, nt, sch, rng.random() < 0.5))
    # directed: updates of message 10 complete while load()'s read of its meta file is still in flight
    for variant in range(4):
        nt = 2
        rc = tuple(RCPTS[:3])
        upd = [('incr', 10, (3, 4)), ('deliv', 10, (0, 2) if variant % 2 else (1,), (5, 6)), ('setts', 10, 777, (7, 8))]
        upd = upd[variant % 3:] + upd[:variant % 3]
        t0 = [('write', (SENDERS[variant], rc, CONTENTS[variant]), 50 + variant, (10,), (1, 2))] + upd + [('get', 10), ('get', 10), ('incr', 10, (9, 10)), ('get', 10)]
        threads = [t0, thread_ops(rng, 1, 100), [('load', 8000), ('get', 10)]]
        plan = [('ops', 0, 1), 2, 2, ('ops', 0, 4), 2, 2, 2, 2]
        sch = plan + [rng.randrange(3) for _ in range(100)] + [j for j in range(3) for _ in range(250)]
        jobs.append((threads, nt, sch, False))
    ids = [10, 11, 12]
    for b in ('disk', 'redis', 'cloud'):
        cfg = dict(codec=True, chunk=11) if b == 'disk' else (dict(mq=True) if b == 'cloud' else {})
        bjobs = []
        for ji, (threads, nt, sch, targeted) in enumerate(jobs):
            if targeted and len(threads) > nt:
                if b == 'disk' and ji % 2 == 0 and len(threads[0]) >= 3:
                    # load()'s read of message 10's meta file starts (snapshot) before thread 0's
                    # second operation and completes after thread 0 finished all but its last one
                    # (gate on the aio_read completion); thread 0's last operation comes after that
                    sch = [('ops', 0, 1), nt, nt, ('ops', 0, len(threads[0]) - 1), nt, nt] + sch
                else:
                    # the reader runs inside the window of thread 0's write (envelope stored, rest pending)
                    sch = [0] * write_window(b, threads[0], 11) + [nt] * 80 + sch
            bjobs.append((threads, nt, sch))
        def model_call(threads, plain):
            if b == 'disk':
                return ctx.model.call('c04_sched', [[[enc_op(o) for o in t] for t in threads], plain, ids, 11, []])
            if b == 'redis':
                return ctx.model.call('c15_redis_sched', [[[enc_op(o) for o in t] for t in threads], plain, ids])
            return ctx.model.call('c15_cloud_sched', [[[enc_op(o) for o in t] for t in threads], plain, ids, 1, []])
        for threads, nt, sch in bjobs:
            gates = sf.Gates()
            ad = Adapter(b, cfg, gates=gates)
            try:
                if ad.disk is not None:
                    ad.disk.gate_reads = True
                results = [[] for _ in threads]

                def body(j):
                    def run():
                        for o in threads[j]:
                            results[j].append(ad.do(o, 'set'))
                    return run
                gs, executed = sf.run_threads([body(j) for j in range(len(threads))], sch, gates,
                                              progress=lambda i: len(results[i]))
                stuck = [g for g in gs if not g.dead]
                sf.kill_all(gs)
                gates.enabled = False
                if ad.disk is not None:
                    ad.disk.gate = None
                # the model follows the order in which the commands were actually issued
                mo = model_call(threads, [i for i, _ in executed])
                final = [ad.do(('get', i)) for i in ids]
                final_load = ad.do(('load', 1))
                case = dict(stream='interleaved', backend=b, threads=threads, readers=len(threads) - nt,
                            schedule=[i for i, _ in executed], plan=[list(x) if isinstance(x, tuple) else x for x in sch[:len(executed) + 400]])
                if len(threads) > nt:
                    ctx.count('interleaved-with-reader:' + b)
                ctx.evaluated(('il', b, tuple(map(tuple, threads)), tuple(i for i, _ in executed)), nontrivial=True)
                ctx.count('interleaved:' + b)
                if stuck:
                    ctx.mismatch('interleaved-unfinished:' + b, case, len(stuck), 0)
                    continue
                # correspondence: order of commands, per-thread results
                if b == 'disk':
                    ilog = [(i, canon_eff(d)) for i, d in executed]
                    mlog = [(x[0], x[1]) for x in mo[0]]
                else:
                    ilog = [i for i, d in executed]
                    mlog = list(mo[0])
                if ilog != mlog:
                    ctx.mismatch('interleaved-log:' + b, case, ilog[:60], mlog[:60])
                mres = [[dec_res(x) for x in t[0]] for t in mo[1]]
                if mres != results:
                    ctx.mismatch('interleaved-results:' + b, case, results, mres)
                # oracle: every thread saw what it would have seen alone; the others' messages undisturbed
                ref_all = Ref()
                thread_failed = False
                for j, t in enumerate(threads[nt:], nt):
                    # a reader may or may not see a message that is being written; it must see nothing impossible
                    for o, got in zip(t, results[j]):
                        bad = None
                        if o[0] == 'load':
                            if got[0] != 'load':
                                bad = got
                            else:
                                for ts, i in got[1]:
                                    own = threads[i - 10] if 10 <= i < 10 + nt else None
                                    okts = set() if own is None else {own[0][2]} | {x[2] for x in own if x[0] == 'setts'} | {o[1]}
                                    if ts not in okts:
                                        bad = got
                        elif got[0] == 'got':
                            own = threads[o[1] - 10]
                            if (got[1], got[3]) != (own[0][1][0], own[0][1][2]):
                                bad = got
                        elif got != ('missing',):
                            bad = got
                        if bad is not None:
                            thread_failed = True
                            fail(ctx, 'c15:overlap-%s-reader' % b, dict(case, thread=j),
                                 '%s: %r overlapping the other threads returned %r' % (b, o, bad))
                            break
                for j, t in enumerate(threads[:nt]):
                    ref = Ref()
                    want = [ref.step(o) for o in t]
                    for o in t:
                        ref_all.step(o)
                    if results[j] != want:
                        thread_failed = True
                        k = next(i for i in range(len(t)) if results[j][i] != want[i])
                        key = classify(b, t[k], results[j][k], want[k])
                        if key == 'c15:%s-%s' % (b, t[k][0]):
                            key = 'c15:overlap-%s-%s' % (b, t[k][0])
                        if b == 'disk' and len(threads) > nt and t[k][0] == 'get' and results[j][k][0] == 'got':
                            key = 'c15:overlap-disk-load-makes-later-get-stale'
                        fail(ctx, key, dict(case, thread=j, at=k),
                                 '%s: overlapped with operations on other ids, %r returned %r; alone it returns %r'
                                 % (b, t[k], results[j][k], want[k]))
                want_final = [ref_all.step(('get', i)) for i in ids]
                want_load = ref_all.step(('load', 1))
                if not thread_failed and (final != want_final or final_load != want_load):
                    key = classify(b, ('load', 1), final_load, want_load)
                    if key == 'c15:%s-load' % b:
                        key = ('c15:overlap-%s-load-disturbs-write' if len(threads) > nt else 'c15:overlap-%s-final') % b
                    fail(ctx, key, case,
                             '%s: after overlapped operations get/load return %r / %r, expected %r / %r'
                             % (b, final, final_load, want_final, want_load))
            finally:
                ad.close()


def probe_glob_prefix(ctx):
    """RedisStorage(prefix) goes into KEYS as a glob: a prefix with '[' does not match itself"""
    ops = [('write', ('s@x', ('r@x',), CONTENTS[0]), 5, (1,), (1, 2)), ('load', 77), ('get', 1)]
    ad = Adapter('redis', dict(prefix=PREFIX_PROBE))
    ref = Ref()
    try:
        got = [ad.do(o) for o in ops]
        want = [ref.step(o) for o in ops]
    finally:
        ad.close()
    ctx.count('probe:glob-prefix:' + ('same' if got == want else 'differs'))
    if got != want:
        fail(ctx, 'c15:redis-load-prefix-taken-as-glob', dict(ops=ops, prefix=PREFIX_PROBE),
             'RedisStorage(prefix=%r): load() returns %r where the reference returns %r - the prefix reaches KEYS unescaped and KEYS takes a glob'
             % (PREFIX_PROBE, got[1], want[1]))


# ---------------------------------- redis: real client, many operations in flight
def resp_overlap_plan(n):
    """n messages; per message the operations one greenlet issues, in two phases"""
    import random
    rng = random.Random(4000 + n)
    msgs = []
    for i in range(n):
        id = 100 + i
        rc = tuple(rng.choice(RCPTS) for _ in range(3))
        env = (rng.choice(SENDERS), rc, rng.choice(CONTENTS))
        w = ('write', env, 10 + i, (id,), (1, 2))
        p1 = [('get', id)]
        for k in range(3):
            p1 += [('incr', id, (1,)), ('setts', id, 1000 * (k + 1) + i, (1,))]
        p1 += [('deliv', id, (0, 2), (1,)), ('get', id)]
        p2 = [('remove', id), ('get', id)] if i % 2 == 0 else [('get', id)]
        msgs.append((w, p1, p2))
    return msgs


def run_resp_overlap(n, latency=0.002):
    """returns (per-message results, per-message expected, loads, expected loads, max commands in flight)"""
    msgs = resp_overlap_plan(n)
    ad = Adapter('redis', dict(resp=True, latency=latency))
    try:
        ref = Ref()
        got = [[] for _ in msgs]
        want = [[] for _ in msgs]
        for j, (w, p1, p2) in enumerate(msgs):
            got[j].append(ad.do(w)); want[j].append(ref.step(w))
        loads, wloads = [], []

        def phase(which):
            def body(j):
                def run():
                    for o in msgs[j][which]:
                        got[j].append(ad.do(o, 'set'))
                return run
            gs = [gevent.spawn(body(j)) for j in range(len(msgs))]
            gevent.joinall(gs)
            for j in range(len(msgs)):
                for o in msgs[j][which]:
                    want[j].append(ref.step(o))
        phase(1)
        loads.append(ad.do(('load', 1))); wloads.append(ref.step(('load', 1)))
        phase(2)
        loads.append(ad.do(('load', 2))); wloads.append(ref.step(('load', 2)))
        return msgs, got, want, loads, wloads, ad.srv.max_in_flight
    finally:
        ad.close()


def stream_resp_overlap(ctx):
    for n in (1, 3, 12, 40):
        msgs, got, want, loads, wloads, inflight = run_resp_overlap(n)
        case = dict(stream='resp-overlap', backend='redis', messages=n)
        ctx.count('resp-overlap:messages', n)
        ctx.count('resp-overlap:max-in-flight:%d' % n, inflight)
        for j in range(n):
            ctx.evaluated(('resp-overlap', n, j), nontrivial=n > 1)
            if got[j] != want[j]:
                k = next(i for i in range(len(want[j])) if got[j][i] != want[j][i])
                o = ([msgs[j][0]] + msgs[j][1] + msgs[j][2])[k]
                key = 'c15:overlap-redis-operation-raises' if got[j][k][0] == 'exc' else 'c15:overlap-redis-%s' % o[0]
                fail(ctx, key, dict(case, message=j, at=k),
                     'redis (real client), %d messages handled at the same time (%d commands in flight at once): %r '
                     'on message %d returned %r; the reference store returns %r'
                     % (n, inflight, (o[0],) + tuple(o[1:3]), j, got[j][k], want[j][k]))
                break
        else:
            if loads != wloads:
                fail(ctx, 'c15:overlap-redis-final', case,
                     'redis (real client), %d messages: load() after the overlapped operations returned %r, expected %r'
                     % (n, loads, wloads))
        if n > 1 and inflight < min(n, 3):
            ctx.mismatch('resp-overlap-not-overlapping', case, inflight, n)


# ------------------------------------------------------------------------ run
def run(ctx):
    q = ctx.quick
    _seen.clear()
    sf.FdGuard.peak = 0
    with sf.FdGuard('c15 random'):
        stream_random(ctx, 150 if q else 3000, 14)
    with sf.FdGuard('c15 exhaustive'):
        nex = stream_exhaustive(ctx, 3 if q else 4)
    with sf.FdGuard('c15 many recipients'):
        stream_many_recipients(ctx, (9, 12, 17, 33) if q else (9, 12, 17, 33, 40, 100))
    with sf.FdGuard('c15 misuse'):
        stream_misuse(ctx, 80 if q else 1500, 10)
    with sf.FdGuard('c15 rounds'):
        nr = stream_rounds(ctx, 3 if q else 4)
    with sf.FdGuard('c15 interleaved'):
        stream_interleaved(ctx, 60 if q else 1500)
    with sf.FdGuard('c15 redis real client overlap'):
        stream_resp_overlap(ctx)
    sf.RespServer.stop_shared()
    probe_glob_prefix(ctx)
    ctx.note('file descriptors: at most %d open at a time during the run (every stream is checked for leaks)' % sf.FdGuard.peak)
    ctx.extra['rule'] = (
        'random: well-formed single-round operation sequences (2-14 ops + load/get tail) over up to ~4 messages, uuid '
        'collisions with live/removed ids scripted, marks passed as set (as the Queue does) / list / tuple / frozenset, '
        'all four real backends (disk: number codec + chunk 7 with effect-log comparison, and real pickle; cloud: with '
        'message queue incl. failures and AWS-like metadata, and without); exhaustive: every well-formed single-round '
        'sequence of length <= %d over two fixed messages (%d sequences) x 4 backends; rounds: every assignment of n<=%d '
        'recipients to 3 marking rounds (%d) x 4 backends; interleaved: 2-3 gated threads (write + ops on its own id) '
        'under random schedules on disk/redis/cloud; misuse (operations on dead ids, bad index sets): model<->code '
        'compared, reference differences noted, not judged.  non-trivial = the sequence marks, removes or increments'
        % (3 if q else 4, nex, 3 if q else 4, nr))
    ctx.extra['exhaustive'] = True
    ctx.extra['exhaustive_bound'] = ('all well-formed single-round sequences of length <= %d over 2 messages and a '
                                     '17-operation alphabet; all 3-round settlement assignments of <= %d recipients'
                                     % (3 if q else 4, 3 if q else 4))
    ctx.extra['trusted_base'] = [
        'storefakes.FakeRedis / FakeObjectStore / FakeMsgQueue stand for redis and the cloud services',
        'pickle is modelled as identity; the disk effect-log runs replace pickle inside slimta.diskstorage by the number codec nc_* (round trip proved in Coq)',
        'file system: ordered atomic effects; patched mkstemp/aio_read/aio_write/os carry out the real system calls',
    ]


def replay(ctx, case):
    import json
    c = case.get('case', case)
    print(json.dumps(case, indent=1)[:3000])
    if 'ops' in c:
        def tup(o):
            return tuple(tup(x) if isinstance(x, list) else (bytes.fromhex(x['hex']) if isinstance(x, dict) and 'hex' in x else x) for x in o)
        ops = [tup(o) for o in c['ops']]
        ad = Adapter(c['backend'], c.get('cfg') or {})
        ref = Ref()
        try:
            for j, (o, form) in enumerate(zip(ops, c.get('forms') or ['set'] * len(ops))):
                if (c.get('cfg') or {}).get('handles', 1) > 1 and j == len(ops) - c.get('ntail', 0):
                    ad.fresh_handle()
                    print('-- a fresh DiskStorage on the same directories from here on')
                print(o[0], o[1:3], '->', ad.do(o, form), ' reference:', ref.step(o))
        finally:
            ad.close()
    elif c.get('stream') == 'resp-overlap':
        msgs, got, want, loads, wloads, inflight = run_resp_overlap(c['messages'])
        print('%d messages, at most %d commands in flight at once' % (c['messages'], inflight))
        for j in range(len(msgs)):
            ops = [msgs[j][0]] + msgs[j][1] + msgs[j][2]
            for o, g, w in zip(ops, got[j], want[j]):
                if g != w:
                    print('message %d: %s %r -> %r   reference: %r' % (j, o[0], o[1:3], g, w))
        print('load ->', loads); print('reference load ->', wloads)
    elif c.get('stream') == 'interleaved':
        def tup(o):
            return tuple(tup(x) if isinstance(x, list) else (bytes.fromhex(x['hex']) if isinstance(x, dict) and 'hex' in x else x) for x in o)
        threads = [[tup(o) for o in t] for t in c['threads']]
        b = c['backend']
        cfg = dict(codec=True, chunk=11) if b == 'disk' else (dict(mq=True) if b == 'cloud' else {})
        gates = sf.Gates()
        ad = Adapter(b, cfg, gates=gates)
        try:
            results = [[] for _ in threads]

            def body(j):
                def run():
                    for o in threads[j]:
                        results[j].append(ad.do(o, 'set'))
                return run
            if ad.disk is not None:
                ad.disk.gate_reads = True
            plan = [tuple(x) if isinstance(x, list) else x for x in c.get('plan', c['schedule'])]
            gs, executed = sf.run_threads([body(j) for j in range(len(threads))], plan + [j for j in range(len(threads)) for _ in range(300)], gates,
                                          progress=lambda i: len(results[i]))
            sf.kill_all(gs)
            gates.enabled = False
            if ad.disk is not None:
                ad.disk.gate = None
            for i, d in executed[:400]:
                print('  thread %d: %s' % (i, (d[0],) + tuple(d[1:3])))
            for j, t in enumerate(threads):
                ref = Ref()
                print('thread', j, 'returned', results[j])
                print('     alone it returns', [ref.step(o) for o in t] if j < len(threads) - c.get('readers', 0) else '(reader)')
            print('afterwards: get ->', [ad.do(('get', i)) for i in (10, 11, 12)], ' load ->', ad.do(('load', 1)))
        finally:
            ad.close()
    elif 'rounds' in c:
        ad = Adapter(c['backend'], c.get('cfg') or (dict(codec=False) if c['backend'] == 'disk' else dict(mq=False)))
        try:
            names = tuple(c['rcpts'])
            print('write', names, '->', ad.do(('write', ('s@x', names, CONTENTS[0]), 1, (1,), (1, 2))))
            for rd, idxs in enumerate(c['rounds']):
                print('round', rd, 'set_recipients_delivered', idxs, '->',
                      ad.do(('deliv', 1, tuple(idxs), (3 + 2 * rd, 4 + 2 * rd)), c.get('form', 'set')),
                      ' get ->', ad.do(('get', 1))[2:3])
        finally:
            ad.close()
    return 0
