"""C19 - relay connection pools stay within bounds and strand no request.

Correspondence of coq/model/Pool.v with
  slimta.util.deque.BlockingDeque                       (random method-call sequences)
  slimta.relay.pool.RelayPool / RelayPoolClient.poll    (a test subclass with scripted, gated clients)
  slimta.relay.smtp.static.StaticSmtpRelay + SmtpRelayClient on fake sockets
  slimta.relay.http.HttpRelay with the real slimta.http.HTTPConnection (http.client) on a fake socket
and the property oracle evaluated on what the implementation did.

How the real code is tied to the model
 * trace validation: every step the real pool takes (attempt, poll entry, popleft return, idle
   expiry, result completion, appendleft, end of a client, _remove_client) is observed from
   outside (tracing subclasses of BlockingDeque / AsyncResult, wrapper subclasses of the pool and
   client classes) together with a snapshot of the real pool (members, idle flags, queue content,
   semaphore counter).  The observed event list is fed to the model's arbitrary-schedule `run`:
   every observed event must be ENABLED in the model and the model state after it must equal the
   snapshot.  This does not depend on gevent's wake-up order.
 * FIFO prediction: for fully gated schedules (one harness action, then the gevent run queue
   drains) the model's FIFO-scheduled run must predict the settled real state.
 * oracle: bound, own result, semaphore = length, nothing stranded at quiescence, everything
   answered after a drain phase, wire-log checkers - evaluated on the implementation only.
Time is virtual: the names `Timeout` in slimta.relay.pool / slimta.relay.smtp.client and
`gevent` in slimta.relay.http are replaced by a virtual Timeout driven by the harness clock.
"""
import collections, errno, io, os, re, socket, types, time as _time

import gevent
import greenlet as _greenlet
from gevent.event import AsyncResult as GAsyncResult

import slimta.relay.pool as poolmod
import slimta.relay.smtp.client as rclientmod
import slimta.smtp.client as smtpclientmod
from slimta.relay.pool import RelayPool, RelayPoolClient
from slimta.util.deque import BlockingDeque
from slimta.envelope import Envelope

ASSUMPTIONS = [
    'gevent: code between two blocking primitives is atomic; Greenlet.link callbacks run once, after the greenlet ends',
    'pool_size None/0 = unbounded, otherwise >= 1 (a negative size never spawns a client: outside the property)',
    'RelayPool.kill() and BlockingDeque(maxlen=...) / deque methods that BlockingDeque does not override (insert, rotate, __delitem__, +=) are outside the property; the pool uses append, appendleft, popleft, len only',
    'clients respect the pool contract (complete the polled request with a result for its own envelope, or put it back, before polling again or exiting); proved for the models of the SMTP client and of the (repaired, D15) HTTP client; checked on the real clients by the runs',
    'SMTP client: the harness server answers in order; STARTTLS/AUTH not negotiated; SDrop = connection closed or silence until the command timeout',
    'a server that stays mute after the message data of a PIPELINING session holds the client for ever (defect D18, _flush_pipeline outside the data timeout; property C14): the scripted server closes the connection in that one situation',
]

REAL_BlockingDeque = BlockingDeque
REAL_Timeout = gevent.Timeout
REAL_SmtpReply = smtpclientmod.Reply
from slimta.smtp import SmtpError


# ====================================================================== virtual environment
class World(object):
    """virtual clock, observation log and the tracing classes for one case"""

    def __init__(self):
        self.now = 0
        self.timers = []          # [deadline, seq, greenlet, vtimeout]
        self.tseq = 0
        self.raw = []             # (event, cur_client_or_None, snapshot)
        self.clients = []         # client greenlets in creation order
        self.slots = []           # tracing AsyncResults in creation order
        self.holding = {}         # client index -> (result, envelope) as observed
        self.pool = None
        self.activity = 0
        self.problems = []        # (key, what) found while observing
        self.max_pool = 0
        self.finished = set()
        self.sema_off = []
        world = self

        class VTimeout(REAL_Timeout):
            def __init__(self, seconds=None, exception=None, ref=True, priority=-1):
                self.seconds = seconds
                self.exception = exception
                self._reg = None

            def start(self):
                if self.seconds is None or self._reg is not None:
                    return
                world.tseq += 1
                self._reg = [world.now + self.seconds, world.tseq, gevent.getcurrent(), self]
                world.timers.append(self._reg)

            @property
            def pending(self):
                return self._reg is not None

            def cancel(self):
                self.close()

            def close(self):
                if self._reg is not None:
                    try:
                        world.timers.remove(self._reg)
                    except ValueError:
                        pass
                    self._reg = None

            def __enter__(self):
                self.start()
                return self

            def __exit__(self, typ, value, tb):
                self.close()
                if value is self and self.exception is False:
                    return True

            def __str__(self):
                return 'virtual timeout %s' % (self.seconds,)

        class TResult(poolmod_AsyncResult):
            def __init__(self):
                super(TResult, self).__init__()
                self.slot = len(world.slots)
                self.nset = 0
                world.slots.append(self)

            def set(self, value=None):
                world.on_result(self, True, value)
                return super(TResult, self).set(value)

            def set_exception(self, exception, exc_info=None):
                world.on_result(self, False, exception)
                return super(TResult, self).set_exception(exception, exc_info)

        class TDeque(REAL_BlockingDeque):
            def append(self, item):
                r = super(TDeque, self).append(item)
                world.on_append(item, False)
                return r

            def appendleft(self, item):
                r = super(TDeque, self).appendleft(item)
                world.on_append(item, True)
                return r

            def popleft(self):
                world.on_enter_popleft()
                try:
                    item = super(TDeque, self).popleft()
                except BaseException as e:
                    world.on_popleft_exc(e)
                    raise
                world.on_popleft(item)
                return item

        class TReply(REAL_SmtpReply):
            def recv(self, io):
                try:
                    r = super(TReply, self).recv(io)
                except BaseException as e:
                    world.on_reply_read(self, e)
                    raise
                world.on_reply_read(self, None)
                return r

        self.VTimeout = VTimeout
        self.TResult = TResult
        self.TDeque = TDeque
        self.TReply = TReply
        self.switches = 0         # greenlet switches seen by the tracer (atomicity of the pool's sections)
        self.after_check = {}     # greenlet -> switch count when its _check_idle() returned
        self.deaths = []          # (client, exception) for clients whose _run raised
        self.light = False        # count runs: no per-event snapshots
        self.reads = {}           # client -> [('read', msg, kind) | ('result', msg) | ('abort',)]
        self.cur_env = {}         # client -> the envelope it polled last

    # ---- patching
    def __enter__(self):
        self._saved = (poolmod.Timeout, poolmod.AsyncResult, poolmod.BlockingDeque, rclientmod.Timeout,
                       smtpclientmod.wait_read)
        self._saved_reply = smtpclientmod.Reply
        smtpclientmod.Reply = self.TReply
        self._saved_trace = _greenlet.settrace(self._trace)
        poolmod.Timeout = self.VTimeout
        poolmod.AsyncResult = self.TResult
        poolmod.BlockingDeque = self.TDeque
        rclientmod.Timeout = self.VTimeout
        smtpclientmod.wait_read = self.wait_read
        return self

    def __exit__(self, *a):
        (poolmod.Timeout, poolmod.AsyncResult, poolmod.BlockingDeque, rclientmod.Timeout,
         smtpclientmod.wait_read) = self._saved
        smtpclientmod.Reply = self._saved_reply
        _greenlet.settrace(self._saved_trace)
        for c in self.clients:
            if not c.dead:
                c.kill(block=False)
        for g in getattr(self, 'attempt_greenlets', []):
            if not g.dead:
                g.kill(block=False)
        gevent.sleep(0)

    def wait_read(self, fd, timeout=None, timeout_exc=None):   # overridden by the SMTP world
        raise timeout_exc

    def _trace(self, event, args):
        self.switches += 1
        if self._saved_trace is not None:
            self._saved_trace(event, args)

    def atomic(self, what, fn):
        """RelayPool's check-then-add sections are correct only if no other greenlet runs inside them"""
        n = self.switches
        try:
            return fn()
        finally:
            if self.switches != n:
                self.problems.append(('c19:pool-check-and-add-not-atomic',
                                      '%d greenlet switch(es) inside %s: other greenlets ran between the size check and pool.add()' % (self.switches - n, what)))
            if what == '_check_idle':
                self.after_check[gevent.getcurrent()] = self.switches

    # ---- observation
    def cur(self):
        g = gevent.getcurrent()
        try:
            return self.clients.index(g)
        except ValueError:
            return None

    def register(self, client):
        self.clients.append(client)
        return len(self.clients) - 1

    def snapshot(self):
        p = self.pool
        members = sorted(self.clients.index(c) for c in p.pool)
        self.max_pool = max(self.max_pool, len(members))
        idle = tuple(i for i in members if self.clients[i].idle)
        queue = tuple((it[0].slot, it[1].no) for it in p.queue)
        return (tuple(members), idle, queue, p.queue.sema.counter)

    def obs(self, ev, cur=None):
        self.activity += 1
        if self.light:
            p = self.pool
            self.max_pool = max(self.max_pool, len(p.pool))
            if p.queue.sema.counter != len(p.queue) and not self.sema_off:
                self.sema_off.append((ev, p.queue.sema.counter, len(p.queue)))
            return
        self.raw.append((ev, cur, self.snapshot()))

    def on_append(self, item, left):
        c = self.cur()
        if not left:
            n = self.after_check.pop(gevent.getcurrent(), None)
            if n is not None and n != self.switches:
                self.problems.append(('c19:pool-check-and-add-not-atomic', 'greenlet switch between _check_idle() and queue.append() in attempt()'))
        if left:
            if c is None or self.holding.get(c) is None or self.holding[c][0] is not item[0] \
                    or self.holding[c][1] is not item[1]:
                self.problems.append(('c19:requeue-of-foreign-request', 'appendleft of a request the client does not hold'))
            self.holding[c] = None
            self.obs(('requeue', c), c)
        else:
            self.obs(('attempt', item[1].no), c)

    def on_enter_popleft(self):
        c = self.cur()
        self.obs(('enterpoll', c), c)

    def on_popleft(self, item):
        c = self.cur()
        self.holding[c] = item
        self.cur_env[c] = item[1].no
        self.note_poll(c, item)
        self.obs(('poll', c), c)

    def note_poll(self, c, item):
        pass

    def on_reply_read(self, reply, exc):
        """a reply was read (or could not be read) by the client running now"""
        c = self.cur()
        if c is None or getattr(reply, 'command', None) == b'QUIT':
            return
        tr = self.reads.setdefault(c, [])
        m = self.cur_env.get(c, -1)
        if exc is None:
            code = reply.code or ''
            kind = 1 if code == '421' else 2 if code[:1] == '4' else 3 if code[:1] == '5' else 0
            tr.append(('read', m, kind))
        elif isinstance(exc, SmtpError):
            tr.append(('read', m, 4))
        else:
            tr.append(('abort',))     # timeout / socket error / kill: not the SmtpError arm

    def on_popleft_exc(self, e):
        c = self.cur()
        if isinstance(e, self.VTimeout):
            self.note_poll(c, None)
            self.obs(('idle', c), c)
        # anything else (GreenletExit at clean-up) is not an event of the model

    def result_kind(self, ok, value):
        return 0 if ok else 1

    def on_result(self, res, ok, value):
        c = self.cur()
        res.nset += 1
        if res.nset > 1:
            self.problems.append(('c19:result-completed-twice', 'slot %d completed %d times' % (res.slot, res.nset)))
            return
        res.by = c
        held = self.holding.get(c) if c is not None else None
        if held is None or held[0] is not res:
            self.problems.append(('c19:result-by-non-holder', 'slot %d completed by client %r which does not hold it' % (res.slot, c)))
            return
        res.env_no = held[1].no
        res.kind = self.result_kind(ok, value)
        self.reads.setdefault(c, []).append(('result', held[1].no))
        self.holding[c] = None
        self.obs(('done', c, res.kind), c)

    def on_finish(self, client):
        c = self.clients.index(client)
        if c in self.finished:
            return
        self.finished.add(c)
        held = self.holding.get(c)
        if held is not None:
            self.holding[c] = None
            self.obs(('abandon', c), c)
        self.obs(('giveup', c), c)

    def on_removed(self, client):
        c = self.clients.index(client)
        self.obs(('exit', c), None)

    # ---- time
    def advance(self, d):
        self.now += d
        self.obs(('advance', d), None)
        due = sorted([t for t in self.timers if t[0] <= self.now], key=lambda t: (t[0], t[1]))
        loop = gevent.get_hub().loop
        for t in due:
            self.timers.remove(t)
            t[3]._reg = None
            vt = t[3]
            exc = vt if (vt.exception is None or vt.exception is False) else vt.exception
            loop.run_callback(t[2].throw, exc)

    def settle(self):
        quiet = 0
        for _ in range(200):
            n = self.activity
            gevent.sleep(0)
            gevent.idle()
            if self.activity == n:
                quiet += 1
                if quiet >= 2:
                    return
            else:
                quiet = 0
        self.problems.append(('c19:no-quiescence', 'the system did not settle'))


# the AsyncResult class the pool module uses (captured before any patching)
poolmod_AsyncResult = poolmod.AsyncResult


def make_env(no, eightbit=False, rcpts=None, sender=None, refuse=False, hdr=None):
    """envelope number `no`; the number is in the sender, in every recipient and in the X-Env header"""
    rcpts = rcpts or ['r%da', 'r%db']
    env = Envelope((sender or 's%d') % no + '@example.com', [(r % no) + '@example.com' for r in rcpts])
    body = b'body of %d\r\n' % no
    if eightbit:
        body += b'caf\xc3\xa9\r\n'
    extra = b'X-Refuse-Me: yes\r\n' if refuse else b''
    if hdr:
        extra += hdr.encode('ascii') + b': yes\r\n'
    env.parse(b'From: s%d@example.com\r\nX-Env: %d\r\n' % (no, no) + extra + b'\r\n' + body)
    env.no = no
    return env


def addr_no(addr):
    m = re.search(r'(\d+)', addr if isinstance(addr, str) else addr.decode('utf-8', 'replace'))
    return int(m.group(1)) if m else -1


# ====================================================================== model-side helpers
EVTAG = {'attempt': 0, 'advance': 1, 'enterpoll': 2, 'giveup': 3, 'poll': 4, 'idle': 5, 'done': 6,
         'requeue': 7, 'abandon': 8, 'exit': 9}


def enc_ev(ev):
    return [EVTAG[ev[0]]] + list(ev[1:])


def enc_cfg(size, idle):
    return [size or 0, [] if idle is None else [idle]]


def proj_state(st):
    """model state -> (members, idle, queue, sema), clients, results, quiescent"""
    clients, queue, cnt, waiters, now, results, crashed, attempts, quiet = st
    members = tuple(c[0] for c in clients)
    idle = tuple(c[0] for c in clients if c[1] == 1)
    return (members, idle, tuple(tuple(x) for x in queue), cnt)


def validate_trace(ctx, kind, case, cfg, raw, mout):
    """every observed event enabled in the model, model state = snapshot after it"""
    ok = True
    for i, ((ev, cur, snap), mo) in enumerate(zip(raw, mout)):
        enabled, st = mo
        if not enabled:
            ctx.mismatch(kind + ':event-not-enabled-in-model', case, dict(index=i, event=ev, real=snap), st)
            return False
        if st[6]:
            ctx.mismatch(kind + ':model-crashed', case, dict(index=i, event=ev), st)
            return False
        pm = proj_state(st)
        rs = snap
        if cur is not None:      # the acting client's own idle flag is in transit inside poll()
            pm = (pm[0], tuple(x for x in pm[1] if x != cur), pm[2], pm[3])
            rs = (rs[0], tuple(x for x in rs[1] if x != cur), rs[2], rs[3])
        if pm != rs:
            ctx.mismatch(kind + ':state-after-event', case, dict(index=i, event=ev, real=rs), pm)
            return False
    return ok


# ====================================================================== 1. deque
def run_deque(ctx, n):
    rng = ctx.rng
    cases = []
    for _ in range(n):
        l0 = [rng.randrange(0, 4) for _ in range(rng.choice([0, 0, 1, 3]))]
        ops = []
        for _ in range(rng.randrange(1, 14)):
            t = rng.choice([0, 0, 1, 2, 3, 4, 5, 5, 6, 6, 6, 7, 7])
            if t in (0, 1, 7):
                ops.append([t, rng.randrange(0, 4)])
            elif t in (3, 4):
                ops.append([t, bytes(rng.randrange(0, 4) for _ in range(rng.randrange(0, 4)))])
            else:
                ops.append([t])
        cases.append((l0, ops))
    outs = ctx.model.batch('c19_deque', [[bytes(l0), ops] for l0, ops in cases])
    for (l0, ops), mo in zip(cases, outs):
        d = BlockingDeque(l0)
        real = []
        case = dict(kind='deque', init=l0, ops=[[o[0]] + [list(x) if isinstance(x, bytes) else x for x in o[1:]] for o in ops])
        for o in ops:
            t = o[0]
            if t == 0:
                d.append(o[1]); real.append(0)
            elif t == 1:
                d.appendleft(o[1]); real.append(0)
            elif t == 2:
                d.clear(); real.append(0)
            elif t == 3:
                d.extend(list(o[1])); real.append(0)
            elif t == 4:
                d.extendleft(list(o[1])); real.append(0)
            elif t in (5, 6):
                if d.sema.counter == 0:       # the call would block: check that now and then
                    if rng.random() < 0.02:
                        got = gevent.with_timeout(0.002, d.pop if t == 5 else d.popleft, timeout_value='BLOCKED')
                        if got != 'BLOCKED':
                            ctx.fail('c19:deque-pop-did-not-block', case, 'pop on counter 0 returned %r' % (got,))
                    real.append(1)
                else:
                    try:
                        real.append((d.pop() if t == 5 else d.popleft(),))
                    except IndexError:
                        real.append(2)
            elif t == 7:
                if o[1] in d and d.sema.counter == 0:
                    real.append(4)        # would block after removing: not executed
                    break
                try:
                    d.remove(o[1]); real.append(0)
                except ValueError:
                    real.append(3)
            if d.sema.counter != len(d):
                ctx.fail('c19:deque-sema-differs-from-length', case, 'after %r: counter %d, length %d' % (o, d.sema.counter, len(d)))
                break
        m_items, m_cnt, m_outs = mo
        impl = (tuple(d), d.sema.counter, tuple(real))
        model = (m_items[1], m_cnt, tuple(m_outs[:len(real)]))
        ctx.evaluated(('deque', tuple(l0), repr(ops)), nontrivial=any(o[0] in (2, 3, 4, 7) for o in ops) and any(o[0] in (5, 6) for o in ops))
        ctx.count('deque-cases')
        if len(real) == len(ops) and impl != model:
            ctx.mismatch('deque', case, impl, model)
        if 2 in real or 4 in real:
            ctx.fail('c19:deque-sema-differs-from-length', case, 'IndexError / blocked remove: %r' % (real,))
    # informational: methods BlockingDeque does not override
    d = BlockingDeque(maxlen=1)
    d.append(1); d.append(2)
    if d.sema.counter != len(d):
        ctx.note('BlockingDeque(maxlen=1): after two appends counter=%d length=%d (maxlen is outside the pool\'s use; not judged)' % (d.sema.counter, len(d)))


# ====================================================================== 2. scripted pool
class _FixedRng(object):
    def choice(self, l):
        return l[0]


ctx_free_rng = _FixedRng()


class ScriptedFailure(Exception):
    def __init__(self, env_no, kind):
        Exception.__init__(self, env_no, kind)
        self.env_no = env_no
        self.kind = kind


class ScriptedPool(RelayPool):
    """the real RelayPool; add_client returns a scripted client; _remove_client is traced"""

    def __init__(self, world, size, idle):
        super(ScriptedPool, self).__init__(size)
        self.world = world
        self.idle_timeout = idle
        world.pool = self

    def add_client(self):
        return ScriptedClient(self.world, self.queue, self.idle_timeout)

    def _check_idle(self):
        return self.world.atomic('_check_idle', super(ScriptedPool, self)._check_idle)

    def _remove_client(self, client):
        self.world.atomic('_remove_client', lambda: super(ScriptedPool, self)._remove_client(client))
        self.world.on_removed(client)


class ScriptedClient(RelayPoolClient):
    """follows the pool protocol (poll(), complete or put back, exit); every decision is taken
    by the harness through a gate"""

    def __init__(self, world, queue, idle):
        super(ScriptedClient, self).__init__(queue, idle)
        self.world = world
        self.no = world.register(self)
        self.phase = 'busy'
        self.parked = False
        self.cmd = GAsyncResult()

    def gate(self):
        self.parked = True
        c = self.cmd.get()
        self.cmd = GAsyncResult()
        self.parked = False
        self.world.activity += 1
        return c

    def _run(self):
        w = self.world
        try:
            while True:
                self.phase = 'busy'
                cmd = self.gate()
                if cmd[0] == 'giveup':
                    break
                self.phase = 'polling'
                result, env = self.poll()
                if result is None:
                    continue
                self.phase = 'delivering'
                cmd = self.gate()
                if cmd[0] == 'done':
                    if cmd[1] == 0:
                        result.set(('delivered', env.no))
                    else:
                        result.set_exception(ScriptedFailure(env.no, cmd[1]))
                elif cmd[0] == 'requeue':
                    self.queue.appendleft((result, env))
                elif cmd[0] == 'abandon':
                    w.holding[self.no] = None
                    w.obs(('abandon', self.no), self.no)
            self.phase = 'exiting'
            w.on_finish(self)
            self.gate()
        finally:
            w.on_finish(self)


class ScriptedWorld(World):
    def __init__(self, size, idle):
        World.__init__(self)
        self.size = size
        self.idle = idle
        self.attempt_greenlets = []
        self.outcomes = {}      # env no -> ('ok', value) | ('exc', e)
        self.nenv = 0

    def result_kind(self, ok, value):
        return 0 if ok else value.kind

    def start(self):
        ScriptedPool(self, self.size, self.idle)

    def _attempt(self, env):
        try:
            v = self.pool.attempt(env, 0)
            self.outcomes[env.no] = ('ok', v)
        except ScriptedFailure as e:
            self.outcomes[env.no] = ('exc', e)
        self.activity += 1

    def do(self, act):
        t = act[0]
        if t == 'A':
            env = make_env(self.nenv)
            self.nenv += 1
            self.attempt_greenlets.append(gevent.spawn(self._attempt, env))
        elif t == 'T':
            self.advance(act[1])
        else:
            c = self.clients[act[1]]
            assert c.parked, (act, c.phase)
            c.parked = False
            if t == 'E':
                assert c.phase == 'busy'; c.cmd.set(('enter',))
            elif t == 'G':
                assert c.phase == 'busy'; c.cmd.set(('giveup',))
            elif t == 'D':
                assert c.phase == 'delivering'; c.cmd.set(('done', act[2]))
            elif t == 'R':
                assert c.phase == 'delivering'; c.cmd.set(('requeue',))
            elif t == 'B':
                assert c.phase == 'delivering'; c.cmd.set(('abandon',))
            elif t == 'X':
                assert c.phase == 'exiting'; c.cmd.set(('exit',))

    def options(self, rng, allow_attempt):
        """harness actions valid in the current (settled) real state"""
        opts = []
        if allow_attempt:
            opts += [('A',)] * 2
        for i, c in enumerate(self.clients):
            if c.dead or not c.parked:
                continue
            if c.phase == 'busy':
                opts += [('E', i), ('E', i), ('G', i)]
            elif c.phase == 'delivering':
                opts += [('D', i, 0), ('D', i, rng.choice([1, 2])), ('R', i)]
            elif c.phase == 'exiting':
                opts += [('X', i), ('X', i)]
        if self.timers:
            nxt = min(t[0] for t in self.timers) - self.now
            opts += [('T', max(nxt, 1))] * 3 + [('T', max(nxt - 1, 1))]
        return opts

    def real_full_state(self):
        """settled real state in the shape of the model's state (for the FIFO prediction)"""
        members = sorted(self.clients.index(c) for c in self.pool.pool)
        cl = []
        for i in members:
            c = self.clients[i]
            if c.phase == 'busy':
                cl.append((i, 0))
            elif c.phase == 'polling':
                dl = [t[0] for t in self.timers if t[2] is c]
                cl.append((i, 1) + tuple(dl[:1]))
            elif c.phase == 'delivering':
                h = self.holding[i]
                cl.append((i, 2, h[0].slot, h[1].no))
            else:
                cl.append((i, 3))
        queue = tuple((it[0].slot, it[1].no) for it in self.pool.queue)
        results = tuple((r.slot, r.env_no, r.kind) for r in sorted((r for r in self.slots if r.nset), key=lambda r: r.order))
        return (tuple(cl), queue, self.pool.queue.sema.counter, self.now, results)

    def on_result(self, res, ok, value):
        res.order = self.activity
        World.on_result(self, res, ok, value)


def model_full_state(st):
    clients, queue, cnt, waiters, now, results, crashed, attempts, quiet = st
    return (tuple(tuple(c) for c in clients), tuple(tuple(x) for x in queue), cnt, now, tuple(tuple(r) for r in results))


ACT2EV = {'A': 'attempt', 'T': 'advance', 'E': 'enterpoll', 'G': 'giveup', 'D': 'done', 'R': 'requeue',
          'B': 'abandon', 'X': 'exit'}


def act_to_ev(act, world_env_no):
    t = act[0]
    if t == 'A':
        return ('attempt', world_env_no)
    if t == 'T':
        return ('advance', act[1])
    if t == 'D':
        return ('done', act[1], act[2])
    return (ACT2EV[t], act[1])


def oracle_point(w, size, where, fails):
    """property statement on the real pool, at any observation point"""
    p = w.pool
    if size and len(p.pool) > size:
        fails.append(('c19:pool-exceeds-bound', '%s: %d clients in a pool of size %d' % (where, len(p.pool), size)))
    if p.queue.sema.counter != len(p.queue):
        fails.append(('c19:deque-sema-differs-from-length', '%s: counter %d, length %d' % (where, p.queue.sema.counter, len(p.queue))))


def oracle_settled(w, size, where, fails):
    """at quiescence: a pending request has a live client and no idle client ignores it"""
    p = w.pool
    oracle_point(w, size, where, fails)
    if len(p.queue) > 0:
        live = [c for c in p.pool if not c.dead]
        if not live:
            fails.append(('c19:stranded-request', '%s: %d request(s) pending, pool %r has no live client' % (where, len(p.queue), len(p.pool))))
        if any(c.idle for c in p.pool):
            fails.append(('c19:idle-client-ignores-request', '%s: request pending while a client sits in poll()' % where))
    for c in p.pool:
        if c.dead:
            fails.append(('c19:dead-client-in-pool', '%s: finished client still in the pool at quiescence' % where))


def run_scripted_case(size, idle, script, rng=None, nsteps=0, max_attempts=5, compound_p=0.0, drain=True, want_options=False):
    """Runs one case on the real pool.  Either replays `script` (list of steps; a step is a list of
    actions issued back to back before the system settles) or generates one with rng.
    Returns dict(script, raw, settled=[(real_full_state)], fails, world facts)."""
    w = ScriptedWorld(size, idle)
    fails = []
    settled = []
    out_script = []
    with w:
        w.start()
        step_i = 0
        while True:
            if script is not None:
                if step_i >= len(script):
                    break
                step = [tuple(a) for a in script[step_i]]
            else:
                if step_i >= nsteps:
                    break
                opts = w.options(rng, w.nenv < max_attempts)
                if not opts:
                    break
                step = [rng.choice(opts)]
                if rng.random() < compound_p:
                    more = [o for o in w.options(rng, w.nenv + 1 < max_attempts)
                            if o[0] != 'T' and step[0][0] != 'T' and (o[0] == 'A' or step[0][0] == 'A' or o[1] != step[0][1])
                            and not (o[0] == 'A' and step[0][0] == 'A' and w.nenv + 2 > max_attempts)]
                    if more:
                        step.append(rng.choice(more))
            step_i += 1
            out_script.append([list(a) for a in step])
            for a in step:
                w.do(a)
            w.settle()
            n0 = len(fails)
            oracle_settled(w, size, 'after step %d %r' % (step_i, step), fails)
            settled.append((len(w.raw), w.real_full_state()))
        options = w.options(ctx_free_rng, w.nenv < max_attempts) if want_options else None
        if options is not None:
            options = sorted(set(o for o in options if not (o[0] == 'D' and o[2] == 2)))
        # ---- drain: every client keeps following the protocol, the clock runs; everything must be answered
        for _ in range(60 if drain else 0):
            pending = [g for g in w.attempt_greenlets if not g.dead]
            acted = False
            for i, c in enumerate(w.clients):
                if c.dead or not c.parked:
                    continue
                acted = True
                if c.phase == 'busy':
                    w.do(('E', i))
                elif c.phase == 'delivering':
                    w.do(('D', i, 0))
                elif c.phase == 'exiting':
                    w.do(('X', i))
            w.settle()
            if not pending and not acted:
                break
            if not acted and pending:
                if w.timers:
                    w.advance(max(min(t[0] for t in w.timers) - w.now, 1))
                    w.settle()
                else:
                    break
        oracle_settled(w, size, 'after drain', fails)
        pending = [g for g in w.attempt_greenlets if not g.dead]
        if pending and drain:
            fails.append(('c19:attempt-never-answered', '%d attempt(s) still blocked after every client served until idle' % len(pending)))
        for no, oc in sorted(w.outcomes.items()):
            got = oc[1][1] if oc[0] == 'ok' else oc[1].env_no
            if got != no:
                fails.append(('c19:result-of-another-envelope', 'attempt(envelope %d) received the result of envelope %d' % (no, got)))
        for i, (ev, cur, snap) in enumerate(w.raw):
            if size and len(snap[0]) > size:
                fails.append(('c19:pool-exceeds-bound', 'event %d %r: pool %r, size %d' % (i, ev, snap[0], size)))
                break
        for i, (ev, cur, snap) in enumerate(w.raw):
            if snap[3] != len(snap[2]):
                fails.append(('c19:deque-sema-differs-from-length', 'event %d %r: counter %d, queue %r' % (i, ev, snap[3], snap[2])))
                break
        fails.extend(w.problems)
        raw = list(w.raw)
    return dict(script=out_script, raw=raw, settled=settled, fails=fails, nenv=w.nenv, max_pool=w.max_pool,
                nclients=len(w.clients), options=options)


def scripted_stream(ctx, ncases, nsteps, compound_p):
    rng = ctx.rng
    runs = []
    for k in range(ncases):
        size = rng.choice([1, 1, 2, 2, 3, None])
        idle = rng.choice([None, 5, 5])
        r = run_scripted_case(size, idle, None, rng=rng, nsteps=rng.randrange(3, nsteps + 1), compound_p=compound_p)
        r['size'] = size; r['idle'] = idle
        runs.append(r)
    judge_scripted(ctx, runs, 'scripted' + ('-compound' if compound_p else ''))


def judge_scripted(ctx, runs, label):
    # trace validation (arbitrary-schedule run of the model on the observed events)
    minputs = [[enc_cfg(r['size'], r['idle']), [enc_ev(ev) for ev, cur, snap in r['raw']]] for r in runs]
    mouts = ctx.model.batch('c19_run', minputs)
    # FIFO prediction for schedules without compound steps
    fifo_idx = [i for i, r in enumerate(runs) if all(len(s) == 1 and s[0][0] != 'B' for s in r['script'])]
    finputs = []
    for i in fifo_idx:
        r = runs[i]
        evs = []
        n = 0
        for s in r['script']:
            evs.append(enc_ev(act_to_ev(tuple(s[0]), n)))
            if s[0][0] == 'A':
                n += 1
        finputs.append([enc_cfg(r['size'], r['idle']), evs])
    fouts = dict(zip(fifo_idx, ctx.model.batch('c19_fifo', finputs)))
    for i, r in enumerate(runs):
        case = dict(kind='scripted', size=r['size'], idle=r['idle'], script=r['script'])
        kinds = set(a[0] for s in r['script'] for a in s)
        nontrivial = r['nenv'] >= 2 and len(kinds) >= 4
        ctx.evaluated(('scripted', r['size'], r['idle'], repr(r['script'])), nontrivial=nontrivial)
        ctx.count(label + '-cases')
        ctx.count('size:%s' % r['size']); ctx.count('idle:%s' % r['idle'])
        for k in kinds:
            ctx.count('act:' + k)
        ctx.count('events-validated', len(r['raw']))
        for ev, cur, snap in r['raw']:
            ctx.count('ev:' + ev[0])
        if r['max_pool'] == (r['size'] or -1):
            ctx.count('pool-reached-its-bound')
        if any(ev[0] == 'exit' and len(snap[0]) > 0 and i2 > 0 and len(r['raw'][i2 - 1][2][0]) == 1 for i2, (ev, cur, snap) in enumerate(r['raw'])):
            ctx.count('respawn-on-last-exit')
        if len(ctx.samples) < 3 and nontrivial:
            ctx.sample(dict(case=case, events=[list(ev) for ev, cur, snap in r['raw']][:40]))
        for key, what in r['fails']:
            ctx.fail(key, case, what)
        okv = validate_trace(ctx, 'pool-trace', case, None, r['raw'], mouts[i])
        if i in fouts and okv:
            for (nraw, real), mst in zip(r['settled'], fouts[i]):
                if real != model_full_state(mst):
                    ctx.mismatch('pool-fifo-prediction', case, real, model_full_state(mst))
                    break
            ctx.count('fifo-predicted-states', len(r['settled']))
    ctx.extra['traces_validated_against_impl'] = ctx.extra.get('traces_validated_against_impl', 0) + len(runs)


# ====================================================================== 3. StaticSmtpRelay + SmtpRelayClient
OK_MS = dict(pre=0, enc=1, mail=0, rcpts=[0, 0], data=0, body=0, rset=1, flavour='close', hold=0)
W = dict(connect=0, handshake=1, mail=2, rcpt=3, data=4, body=5, empty=6, rset=7, quit=8, close=9, result=10, requeue=11,
         result_rcpts=12)


class FakeConn(object):
    """client side socket of one scripted SMTP server session"""

    def __init__(self, world, idx, cs):
        self.world = world
        self.idx = idx
        self.cs = cs
        self.fd = 1000 + idx
        self.owner = world.cur()
        self.inbuf = b''
        self.out = collections.deque()
        self.eof = False
        self.silent = False
        self.waiter = None
        self.mode = 'cmd'
        self.ms = None            # script of the message being delivered
        self.rcpt_i = 0
        self.held = None          # reply held back until the harness releases it
        self.closed = False
        self.in_txn = False       # a real server refuses MAIL inside a transaction
        self.accepted = 0         # recipients accepted in this transaction (LMTP: one data reply each)
        self.lmtp = bool(cs.get('lmtp'))
        self.log = world.wirelog.setdefault(self.owner, [])
        self.log.append((W['handshake'],))
        hs, stage, flavour = cs['handshake'], cs['hs_stage'], cs['flavour']
        if stage == 'banner' and hs != 0:
            self.reply_or_drop(hs, b'554 scripted-reject banner\r\n', flavour)
        else:
            self.push(b'220 fake ESMTP\r\n')

    # ---- socket API used by slimta.smtp.io.IO and the loggers
    def fileno(self):
        return self.fd

    def getpeername(self):
        return ('192.0.2.1', 25)

    def getsockname(self):
        return ('192.0.2.2', 40000 + self.idx)

    def recv(self, n=4096):
        while True:
            if self.out:
                c = self.out.popleft()
                if len(c) > n:
                    self.out.appendleft(c[n:]); c = c[:n]
                return c
            if self.eof:
                return b''
            self.waiter = GAsyncResult()
            try:
                self.waiter.get()
            finally:
                self.waiter = None

    def sendall(self, data):
        self.world.activity += 1
        if self.held is not None:
            # the client writes again although the reply to its message data is still held back: it
            # gave up waiting (timeout).  For this delivery the server was mute - and stays mute.
            self.held = None
            self.ms['body'] = 2
            self.ms['flavour'] = 'silent'
            self.silent = True
        self.inbuf += bytes(data)
        self.process()

    def send(self, data):
        self.sendall(data)
        return len(data)

    def close(self):
        if not self.closed:
            self.closed = True
            if self.held is not None:
                # the client gave up (data timeout) before the harness released the reply: for this
                # delivery the server was mute
                self.held = None
                self.ms['body'] = 2
                self.ms['flavour'] = 'silent'
            self.log.append((W['close'],))
            self.world.open_conns.discard(self)

    # ---- server side
    def push(self, data):
        self.out.append(data)
        if self.waiter is not None and not self.waiter.ready():
            self.waiter.set(None)

    def drop(self, flavour):
        if flavour == 'close':
            self.eof = True
            if self.waiter is not None and not self.waiter.ready():
                self.waiter.set(None)
        else:
            self.silent = True          # never answers: the client's command timeout has to fire

    def reply_or_drop(self, s, text, flavour, okreply=None, n=1):
        if s == 0:
            self.push(okreply * n)
        elif s == 1:
            self.push(text * n)
        elif s == 3:              # the same rejection as a 4xx
            self.push((b'450 4.0.0' + text[text.index(b' '):]) * n)
        elif s == 4:              # the server announces that it closes the channel, and does
            self.push(b'421 4.3.2' + text[text.index(b' '):])
            self.eof = True
        else:
            self.drop(flavour)

    def release(self):
        if self.held is not None:
            h, self.held = self.held, None
            h()
            self.process()        # the commands that arrived meanwhile

    def process(self):
        while True:
            if self.held is not None:
                return            # an in-order server: nothing is answered before the held reply
            if self.mode == 'data':
                if self.inbuf.startswith(b'.\r\n'):
                    body, self.inbuf = b'', self.inbuf[3:]
                    empty = True
                else:
                    k = self.inbuf.find(b'\r\n.\r\n')
                    if k < 0:
                        return
                    body, self.inbuf = self.inbuf[:k + 2], self.inbuf[k + 5:]
                    empty = False
                self.mode = 'cmd'
                if empty:
                    self.log.append((W['empty'], self.env_no))
                else:
                    no = -1
                    for line in body.split(b'\r\n'):
                        if line.lower().startswith(b'x-env:'):
                            no = int(line.split(b':')[1])
                    self.log.append((W['body'], no))
                ms = self.ms

                self.in_txn = False
                nrep = self.accepted if self.lmtp else 1       # LMTP: one reply per accepted recipient
                self.accepted = 0

                bno = no if not empty else self.env_no

                def answer(ms=ms, nrep=nrep, bno=bno):
                    if nrep:
                        self.reply_or_drop(ms['body'], b'550 5.6.0 msg%d scripted-reject body\r\n' % bno, ms['flavour'],
                                           b'250 2.0.0 msg%d queued\r\n' % bno, nrep)
                if ms.get('hold'):
                    self.held = answer
                else:
                    answer()
                continue
            k = self.inbuf.find(b'\r\n')
            if k < 0:
                return
            line, self.inbuf = self.inbuf[:k], self.inbuf[k + 2:]
            up = line.upper()
            if self.eof or self.silent:
                # the server is gone / mute; what the client still writes is logged all the same
                self.log_cmd(up, line)
                continue
            if up.startswith(b'EHLO') or up.startswith(b'HELO') or up.startswith(b'LHLO'):
                hs, stage, flavour = self.cs['handshake'], self.cs['hs_stage'], self.cs['flavour']
                if hs != 0 and stage == 'ehlo':
                    self.reply_or_drop(hs, b'550 scripted-reject ehlo\r\n', flavour)
                else:
                    ext = [b'250-fake']
                    if self.cs['pipe']:
                        ext.append(b'250-PIPELINING')
                    if self.cs['eightbit']:
                        ext.append(b'250-8BITMIME')
                    ext.append(b'250 SIZE 1000000')
                    self.push(b'\r\n'.join(ext) + b'\r\n')
            elif up.startswith(b'MAIL FROM:'):
                self.log_cmd(up, line)
                if self.in_txn:
                    # like slimta's own Server or Postfix: no MAIL inside a transaction
                    self.world.nested_mail.append((self.owner, self.env_no))
                    self.push(b'503 5.5.1 msg%d Bad sequence of commands (nested MAIL)\r\n' % self.env_no)
                    continue
                self.ms = self.world.cur_ms.get(self.owner) or OK_MS
                self.rcpt_i = 0
                self.accepted = 0
                if self.ms['mail'] == 0:
                    self.in_txn = True
                self.reply_or_drop(self.ms['mail'], b'550 5.1.0 msg%d scripted-reject mail\r\n' % self.env_no, self.ms['flavour'],
                                   b'250 2.1.0 msg%d sender ok\r\n' % self.env_no)
            elif up.startswith(b'RCPT TO:'):
                self.log_cmd(up, line)
                rc = self.ms['rcpts']
                s = rc[self.rcpt_i] if self.rcpt_i < len(rc) else 0
                self.rcpt_i += 1
                if s == 0:
                    self.accepted += 1
                addr = line[line.index(b'<'):line.index(b'>') + 1] if b'<' in line and b'>' in line else b'<?>'
                self.reply_or_drop(s, b'550 5.1.1 ' + addr + b' msg%d scripted-reject rcpt\r\n' % self.env_no, self.ms['flavour'],
                                   b'250 2.1.5 ' + addr + b' msg%d ok\r\n' % self.env_no)
            elif up == b'DATA':
                self.log_cmd(up, line)
                s = self.ms['data']
                if s == 0:
                    self.mode = 'data'
                self.reply_or_drop(s, b'554 5.5.0 msg%d scripted-reject data\r\n' % self.env_no, self.ms['flavour'],
                                   b'354 msg%d go ahead\r\n' % self.env_no)
            elif up == b'RSET':
                self.log_cmd(up, line)
                ms = self.world.cur_ms.get(self.owner) or OK_MS
                self.in_txn = False
                self.accepted = 0
                if ms['rset']:
                    self.push(b'250 ok\r\n')
                else:
                    self.drop(ms['flavour'])
            elif up == b'QUIT':
                self.log_cmd(up, line)
                self.push(b'221 bye\r\n')
                self.eof = True
            else:
                self.push(b'500 what\r\n')

    def log_cmd(self, up, line):
        if up.startswith(b'MAIL FROM:'):
            self.env_no = addr_no(line)
            self.log.append((W['mail'], self.env_no))
        elif up.startswith(b'RCPT TO:'):
            self.log.append((W['rcpt'], addr_no(line)))
        elif up == b'DATA':
            self.log.append((W['data'], self.env_no))
        elif up == b'RSET':
            self.log.append((W['rset'],))
        elif up == b'QUIT':
            self.log.append((W['quit'],))


class SmtpWorld(World):
    """StaticSmtpRelay with the real SmtpRelayClient; only tracing wrappers are added"""

    def __exit__(self, *a):
        if self._saved_socket is not None:
            rclientmod.socket = self._saved_socket
        World.__exit__(self, *a)

    def __init__(self, size, idle, conn_scripts, env_scripts, env_8bit, lmtp=False, env_spec=None):
        World.__init__(self)
        self.lmtp = lmtp
        self.ehlo_kind = 'str'
        self._saved_socket = None
        self.env_spec = env_spec or {}       # env no -> dict(rcpts=[...], sender=..., refuse=...)
        self.nested_mail = []                # (client, env) for every MAIL the server saw inside a transaction
        self.size = size
        self.idle = idle
        self.conn_scripts = conn_scripts      # per connection attempt (index = client number)
        self.env_scripts = env_scripts        # env no -> list of message scripts, one per delivery try
        self.env_8bit = env_8bit
        self.cur_ms = {}                      # client -> script of the request it polled last
        self.polls = {}                       # client -> what its poll() calls returned
        self.wirelog = {}                     # client -> wire log (commands seen by the server + ghost events)
        self.conns = []
        self.open_conns = set()
        self.max_open = 0
        self.attempt_greenlets = []
        self.outcomes = {}
        self.nenv = 0
        self.connect_gates = {}
        self.conn_effective = {}
        self.try_no = {}

    def conn_script(self, c):
        cs = self.conn_scripts[c] if c < len(self.conn_scripts) else dict(self.conn_scripts[-1] if self.conn_scripts else dict(connect=1, handshake=0, hs_stage='ehlo', flavour='close', pipe=c % 2, eightbit=1), hold=0)
        return dict(cs, lmtp=self.lmtp)

    def start(self):
        from slimta.relay.smtp.static import StaticSmtpRelay, StaticLmtpRelay
        from slimta.relay.smtp.client import SmtpRelayClient
        from slimta.relay.smtp.lmtpclient import LmtpRelayClient
        world = self
        StaticRelay = StaticLmtpRelay if self.lmtp else StaticSmtpRelay

        class TracedClient(LmtpRelayClient if self.lmtp else SmtpRelayClient):
            def __init__(self, *a, **kw):
                super(TracedClient, self).__init__(*a, **kw)
                self.no = world.register(self)

            def _run(self):
                try:
                    return super(TracedClient, self)._run()
                except Exception as e:
                    world.deaths.append((self.no, e))
                    raise
                finally:
                    world.on_finish(self)

        class TracedRelay(StaticRelay):
            def _check_idle(self):
                return world.atomic('_check_idle', super(TracedRelay, self)._check_idle)

            def _remove_client(self, client):
                world.atomic('_remove_client', lambda: super(TracedRelay, self)._remove_client(client))
                world.on_removed(client)

        def yielding_name(address=None):
            gevent.sleep(0)              # a cooperative lookup: other greenlets run meanwhile
            return 'harness'
        kind = self.ehlo_kind
        ehlo = {'str': 'harness', 'none': None, 'callable': (lambda address: 'harness'), 'yielding': yielding_name}[kind]
        if kind == 'none':
            # the default: socket.getfqdn() - cooperative (it yields) once gevent has monkey-patched socket
            self._saved_socket = rclientmod.socket
            rclientmod.socket = types.SimpleNamespace(getfqdn=yielding_name, error=socket.error)
        self.pool = TracedRelay('192.0.2.1', 25, pool_size=self.size, client_class=TracedClient,
                                context=object(), socket_creator=self.create_conn, ehlo_as=ehlo,
                                idle_timeout=self.idle, connect_timeout=10, command_timeout=10, data_timeout=20)

    # socket_creator(address), called inside the client greenlet under Timeout(connect_timeout)
    def create_conn(self, address):
        c = self.cur()
        cs = self.conn_script(c)
        self.wirelog.setdefault(c, []).append((W['connect'],))
        if cs.get('hold'):
            g = self.connect_gates[c] = GAsyncResult()
            try:
                g.get()
            except BaseException:
                self.conn_effective[c] = dict(cs, connect=0)     # the connect timeout fired while held
                raise
            finally:
                self.connect_gates.pop(c, None)
        if not cs['connect']:
            if cs['flavour'] == 'close':
                raise socket.error(errno.ECONNREFUSED, 'scripted refusal')
            GAsyncResult().get()          # hangs until the connect timeout
        conn = FakeConn(self, len(self.conns), cs)
        self.conns.append(conn)
        self.open_conns.add(conn)
        self.max_open = max(self.max_open, len(self.open_conns))
        self.activity += 1
        return conn

    def wait_read(self, fd, timeout=None, timeout_exc=None):
        # has_reply_waiting(): is there an unsolicited reply (server-initiated timeout)?
        conn = [c for c in self.conns if c.fd == fd][0]
        ms = self.cur_ms.get(conn.owner) or OK_MS
        if ms['pre'] and not conn.eof and not conn.out:
            if ms['flavour'] == 'close':
                conn.eof = True
            else:
                conn.push(b'421 4.4.2 scripted server timeout\r\n')
                conn.eof = True
        if conn.out or conn.eof:
            return
        raise timeout_exc

    def note_poll(self, c, item):
        if item is None:
            self.polls.setdefault(c, []).append(None)
            return
        no = item[1].no
        k = self.try_no.get(no, 0)
        self.try_no[no] = k + 1
        sc = self.env_scripts.get(no, [])
        ms = dict(sc[k] if k < len(sc) else OK_MS)
        nr = len(item[1].recipients)          # one scripted reply per recipient of THIS envelope
        ms['rcpts'] = (list(ms['rcpts']) + [0] * nr)[:nr]
        if ms['enc'] == 0 and not (self.env_8bit.get(no) and not self.conn_script(c)['eightbit']):
            ms = dict(ms, enc=1)          # conversion only fails for 8-bit content on a 7-bit server
        elif ms['enc'] == 1 and self.env_8bit.get(no) and not self.conn_script(c)['eightbit']:
            ms = dict(ms, enc=0)
        self.cur_ms[c] = ms
        self.polls.setdefault(c, []).append((item[0].slot, no, ms))

    def result_kind(self, ok, value):
        if ok:
            if isinstance(value, dict) and value and all(isinstance(v, Exception) for v in value.values()):
                return 3          # failed; reported as a dict of per-recipient errors
            return 0
        rep = getattr(value, 'reply', None)
        if rep is not None and rep.code == '553' and 'SMTPUTF8' in (rep.message or ''):
            return 1
        if rep is not None and 'scripted-reject' in (rep.message or ''):
            return 1
        if rep is not None and rep.code == '554' and 'Conversion' in (rep.message or ''):
            return 1
        return 2

    def on_result(self, res, ok, value):
        c = self.cur()
        held = self.holding.get(c) if c is not None else None
        World.on_result(self, res, ok, value)
        if held is not None and held[0] is res:
            if res.kind == 3:
                self.wirelog.setdefault(c, []).append((W['result_rcpts'], held[1].no))
            else:
                self.wirelog.setdefault(c, []).append((W['result'], held[1].no, 1 if ok else 0))
            if ok:
                # the result of THIS envelope: a dict over its recipients
                if not isinstance(value, dict) or sorted(value) != sorted(held[1].recipients):
                    self.problems.append(('c19:result-of-another-envelope', 'result %r is not about the recipients of envelope %d' % (value, held[1].no)))

    def on_append(self, item, left):
        c = self.cur()
        World.on_append(self, item, left)
        if left:
            self.wirelog.setdefault(c, []).append((W['requeue'], item[1].no))

    def _attempt(self, env):
        try:
            v = self.pool.attempt(env, 0)
            self.outcomes[env.no] = ('ok', v)
        except Exception as e:
            self.outcomes[env.no] = ('exc', e)
        self.activity += 1

    def do(self, act):
        t = act[0]
        if t == 'A':
            sc = self.env_scripts.get(self.nenv) or [OK_MS]
            spec = dict(self.env_spec.get(self.nenv) or {})
            if 'rcpts' not in spec and len(sc[0]['rcpts']) != 2:
                spec['rcpts'] = ['r%d' + 'abcdefgh'[i] for i in range(len(sc[0]['rcpts']))]
            env = make_env(self.nenv, self.env_8bit.get(self.nenv, False), **spec)
            self.nenv += 1
            self.attempt_greenlets.append(gevent.spawn(self._attempt, env))
        elif t == 'T':
            self.advance(act[1])
        elif t == 'C':           # release a held connect
            g = self.connect_gates.get(act[1])
            if g is not None and not g.ready():
                g.set(None)
        elif t == 'M':           # release a held reply to message data
            self.conns[act[1]].release()

    def options(self, rng, allow_attempt):
        opts = []
        if allow_attempt:
            opts += [('A',)] * 3
        for c in sorted(self.connect_gates):
            opts += [('C', c)] * 2
        for i, conn in enumerate(self.conns):
            if conn.held is not None:
                opts += [('M', i)] * 2
        if self.timers:
            nxt = min(t[0] for t in self.timers) - self.now
            opts += [('T', max(nxt, 1)), ('T', max(nxt - 1, 1))]
        return opts


SRV = [0, 0, 0, 0, 1, 2]


def gen_ms(rng, plain_p=0.45):
    if rng.random() < plain_p:
        return dict(OK_MS, hold=rng.choice([0, 1]))
    rc = rng.choice([SRV, SRV, [1, 3], [1, 3, 3, 0]])      # sometimes: every recipient rejected, in whatever classes
    return dict(pre=rng.choice([0, 0, 0, 1]), enc=1, mail=rng.choice(SRV + [3]), rcpts=[rng.choice(rc) for _ in range(rng.choice([2, 2, 3]))],
                data=rng.choice(SRV + [3]), body=rng.choice(SRV + [3]), rset=rng.choice([1, 1, 0]),
                flavour=rng.choice(['close', 'close', 'silent']), hold=rng.choice([0, 0, 1]))


def gen_cs(rng, c):
    r = rng.random()
    cs = dict(connect=1, handshake=0, hs_stage='ehlo', flavour=rng.choice(['close', 'close', 'silent']),
              pipe=rng.choice([0, 1]), eightbit=rng.choice([1, 1, 0]), hold=rng.choice([0, 0, 1]))
    if r < 0.12:
        cs['connect'] = 0
    elif r < 0.27:
        cs['handshake'] = rng.choice([1, 2]); cs['hs_stage'] = rng.choice(['banner', 'ehlo'])
    return cs


def py_one_at_a_time(log):
    cur = None
    for w in log:
        t = w[0]
        if t == W['mail']:
            if cur is not None:
                return 'MAIL for envelope %d while the transaction of envelope %d is open' % (w[1], cur)
            cur = w[1]
        elif t in (W['rcpt'], W['data']):
            if cur != w[1]:
                return 'command %r outside the transaction of its envelope (open: %r)' % (w, cur)
        elif t in (W['body'], W['empty']):
            if cur != w[1]:
                return 'message data %r while the open transaction is %r' % (w, cur)
            cur = None
        elif t == W['rset']:
            cur = None
        elif t in (W['result'], W['requeue'], W['result_rcpts']):
            if cur is not None and cur != w[1]:
                return 'result/requeue for envelope %d during the transaction of envelope %d' % (w[1], cur)
    return None


def py_reset_after_failure(log):
    dirty = None
    for w in log:
        t = w[0]
        if (t == W['result'] and w[2] == 0) or t == W['result_rcpts']:
            dirty = w[1]
        elif t == W['rset']:
            dirty = None
        elif t == W['mail'] and dirty is not None and w[1] != dirty:
            # (with PIPELINING the failed message's own buffered MAIL/RCPT may still be flushed, with
            # the RSET, after its result was set: that is not the next message)
            return 'MAIL for envelope %d after the failed transaction of envelope %d without RSET' % (w[1], dirty)
    return None


def run_smtp_case(cfg, script, rng=None, nsteps=0):
    """cfg: dict(size, idle, conn_scripts, env_scripts, env_8bit, nattempts)"""
    w = SmtpWorld(cfg['size'], cfg['idle'], cfg['conn_scripts'],
                  {int(k): v for k, v in cfg['env_scripts'].items()}, {int(k): v for k, v in cfg['env_8bit'].items()},
                  lmtp=bool(cfg.get('lmtp')), env_spec={int(k): v for k, v in (cfg.get('env_spec') or {}).items()})
    w.nenv = int(cfg.get('first_env', 0))
    w.ehlo_kind = cfg.get('ehlo_as', 'str')
    fails = []
    out_script = []
    size = cfg['size']
    with w:
        w.start()
        i = 0
        while True:
            if script is not None:
                if i >= len(script):
                    break
                step = [tuple(a) for a in script[i]]
            else:
                if i >= nsteps:
                    break
                opts = w.options(rng, w.nenv < cfg['nattempts'])
                if not opts:
                    break
                step = [rng.choice(opts)]
                if step[0][0] == 'A' and w.nenv + 1 < cfg['nattempts'] and rng.random() < 0.3:
                    step.append(('A',))
            i += 1
            out_script.append([list(a) for a in step])
            for a in step:
                w.do(a)
            w.settle()
            oracle_settled(w, size, 'after step %d %r' % (i, step), fails)
            if size and len(w.open_conns) > size:
                fails.append(('c19:connections-exceed-bound', 'after step %d: %d open connections, size %d' % (i, len(w.open_conns), size)))
        # drain: release everything held, let the clock run until every attempt is answered and every client gone
        for _ in range(80):
            acted = False
            for c in sorted(w.connect_gates):
                w.do(('C', c)); acted = True
            for k, conn in enumerate(w.conns):
                if conn.held is not None:
                    w.do(('M', k)); acted = True
            w.settle()
            busy = [g for g in w.attempt_greenlets if not g.dead] or [c for c in w.clients if not c.dead]
            if not busy and not acted:
                break
            if not acted:
                if not w.timers:
                    break
                w.advance(max(min(t[0] for t in w.timers) - w.now, 1))
                w.settle()
        oracle_settled(w, size, 'after drain', fails)
        pending = [g for g in w.attempt_greenlets if not g.dead]
        if pending:
            fails.append(('c19:attempt-never-answered', '%d attempt(s) still blocked after the drain phase' % len(pending)))
        if size and w.max_open > size:
            fails.append(('c19:connections-exceed-bound', '%d simultaneously open connections, size %d' % (w.max_open, size)))
        for i2, (ev, cur, snap) in enumerate(w.raw):
            if size and len(snap[0]) > size:
                fails.append(('c19:pool-exceeds-bound', 'event %d %r: pool %r, size %d' % (i2, ev, snap[0], size)))
                break
        for i2, (ev, cur, snap) in enumerate(w.raw):
            if snap[3] != len(snap[2]):
                fails.append(('c19:deque-sema-differs-from-length', 'event %d %r: counter %d, queue %r' % (i2, ev, snap[3], snap[2])))
                break
        for no, oc in sorted(w.outcomes.items()):
            if oc[0] == 'ok':
                if not isinstance(oc[1], dict) or not oc[1] or any(addr_no(k) != no for k in oc[1]):
                    fails.append(('c19:result-of-another-envelope', 'attempt(envelope %d) returned %r' % (no, oc[1])))
        for c, log in sorted(w.wirelog.items()):
            e1 = py_one_at_a_time(log)
            if e1:
                fails.append(('c19:two-messages-on-one-connection', 'client %d: %s; wire %r' % (c, e1, log)))
            e2 = py_reset_after_failure(log)
            if e2:
                fails.append(('c19:reused-connection-not-reset-after-failed-transaction', 'client %d: %s; wire %r' % (c, e2, log)))
        own_replies_oracle(w.outcomes, fails, 'scripted server')
        for c, e in w.deaths:
            if isinstance(e, (IndexError, KeyError, TypeError, AttributeError)):
                fails.append(('c19:client-died-unexpectedly', 'client %d ended with %r' % (c, e)))
        for c, no in w.nested_mail:
            fails.append(('c19:reused-connection-not-reset-after-failed-transaction',
                          'client %r: the server received MAIL for envelope %r inside the transaction of an earlier message (answered 503); wire %r' % (c, no, w.wirelog.get(c))))
        fails.extend(w.problems)
        res = dict(script=out_script, raw=list(w.raw), fails=fails, nenv=w.nenv, max_pool=w.max_pool,
                   outcomes=dict(w.outcomes), reads={c: list(v) for c, v in w.reads.items()},
                   polls={c: list(v) for c, v in w.polls.items()}, wirelog={c: list(v) for c, v in w.wirelog.items()},
                   nclients=len(w.clients), finished=set(w.finished),
                   conn_used=[w.conn_effective.get(c) or w.conn_script(c) for c in range(len(w.clients))], max_open=w.max_open)
    return res


def enc_ms(ms):
    return [ms['pre'], ms['enc'], ms['mail'], list(ms['rcpts']), ms['data'], ms['body'], ms['rset']]


def client_acts(raw, c):
    """pool-level actions of client c from the observed events"""
    acts = []
    for ev, cur, snap in raw:
        if len(ev) > 1 and ev[1] == c and ev[0] in ('enterpoll', 'poll', 'idle', 'done', 'requeue', 'giveup'):
            acts.append(ev)
    return acts


def smtp_stream(ctx, ncases, nsteps):
    rng = ctx.rng
    runs = []
    for k in range(ncases):
        nat = rng.randrange(1, 6)
        cfg = dict(size=rng.choice([1, 1, 2, 2, 3, None]), idle=rng.choice([None, 7, 7]), nattempts=nat,
                   ehlo_as=rng.choice(['str', 'str', 'callable', 'yielding']),
                   conn_scripts=[gen_cs(rng, c) for c in range(8)],
                   env_scripts={str(e): [gen_ms(rng) for _ in range(rng.choice([1, 1, 2]))] for e in range(nat)},
                   env_8bit={str(e): (rng.random() < 0.15) for e in range(nat)})
        r = run_smtp_case(cfg, None, rng=rng, nsteps=rng.randrange(2, nsteps + 1))
        r['cfg'] = cfg
        runs.append(r)
    judge_smtp(ctx, runs)


def judge_smtp(ctx, runs):
    minputs = [[enc_cfg(r['cfg']['size'], r['cfg']['idle']), [enc_ev(ev) for ev, cur, snap in r['raw']]] for r in runs]
    mouts = ctx.model.batch('c19_run', minputs)
    sinputs = []
    sidx = []
    for i, r in enumerate(runs):
        if r['cfg'].get('lmtp') or r['cfg'].get('no_model'):
            continue        # the Coq wire model is the SMTP client; these runs are judged by the oracles only
        for c in range(r['nclients']):
            cs = r['conn_used'][c]
            polls = [[] if p is None else [p[0], p[1], enc_ms(p[2])] for p in r['polls'].get(c, [])]
            sinputs.append([cs['pipe'], 0 if r['cfg']['idle'] is None else 1, [cs['connect'], cs['handshake']], polls])
            sidx.append((i, c))
    souts = ctx.model.batch('c19_smtp', sinputs)
    for i, r in enumerate(runs):
        case = dict(kind='smtp', cfg=r['cfg'], script=r['script'])
        flat = [w for log in r['wirelog'].values() for w in log]
        feats = set(w[0] for w in flat)
        nontrivial = r['nenv'] >= 2 and (W['rset'] in feats or W['requeue'] in feats or any(w[0] == W['result'] and w[2] == 0 for w in flat))
        ctx.evaluated(('smtp', repr(r['cfg']), repr(r['script'])), nontrivial=nontrivial)
        ctx.count('smtp-cases')
        ctx.count('events-validated', len(r['raw']))
        ctx.count('smtp-size:%s' % r['cfg']['size']); ctx.count('smtp-idle:%s' % r['cfg']['idle'])
        for name in ('rset', 'requeue', 'empty'):
            if W[name] in feats:
                ctx.count('smtp-wire:' + name)
        if any(sum(1 for w in log if w[0] == W['mail']) >= 2 for log in r['wirelog'].values()):
            ctx.count('smtp-connection-reused')
        if r['max_open'] == (r['cfg']['size'] or -1):
            ctx.count('smtp-connections-reached-bound')
        if len([s for s in ctx.samples if s.get('case', {}).get('kind') == 'smtp']) < 2 and nontrivial:
            ctx.sample(dict(case=case, wire={str(c): [list(x) for x in log] for c, log in r['wirelog'].items()}))
        not_atomic = any(key == 'c19:pool-check-and-add-not-atomic' for key, what in r['fails'])
        for key, what in r['fails']:
            if r['cfg'].get('ehlo_as') == 'none' and key in ('c19:pool-exceeds-bound', 'c19:connections-exceed-bound', 'c19:pool-check-and-add-not-atomic'):
                # the default EHLO name: SmtpRelayClient.__init__ calls socket.getfqdn(), cooperative under gevent
                key = 'c19:pool-bound-default-ehlo-getfqdn-yields'
            ctx.fail(key, case, what)
        if not_atomic:
            continue      # the model's attempt()/exit steps are atomic; outside that assumption there is nothing to compare
        validate_trace(ctx, 'smtp-pool-trace', case, None, r['raw'], mouts[i])
    ACT = {'enterpoll': 0, 'poll': 1, 'idle': 2, 'done': 3, 'requeue': 4, 'giveup': 5}
    for (i, c), so in zip(sidx, souts):
        r = runs[i]
        case = dict(kind='smtp', cfg=r['cfg'], script=r['script'], client=c)
        m_wire, m_acts, m_exited, m_oaat, m_raf, m_contract = so
        real_wire = tuple(tuple(w) for w in r['wirelog'].get(c, []) if w[0] != W['handshake'])
        model_wire = tuple(tuple(w) for w in m_wire if w[0] != W['handshake'])
        ctx.count('smtp-clients-compared')
        if real_wire != model_wire:
            ctx.mismatch('smtp-wire', case, real_wire, model_wire)
        real_acts = tuple((ACT[ev[0]],) + ((ev[2],) if ev[0] == 'done' else ()) for ev in client_acts(r['raw'], c))
        model_acts = tuple((a[0],) + ((a[2],) if a[0] == 3 else ()) for a in m_acts)
        if real_acts != model_acts:
            ctx.mismatch('smtp-client-actions', case, real_acts, model_acts)
        if bool(m_exited) != (c in r['finished']):
            ctx.mismatch('smtp-client-exited', case, c in r['finished'], m_exited)
        if not (m_oaat and m_raf and m_contract):
            ctx.mismatch('smtp-model-checker-false', case, None, (m_oaat, m_raf, m_contract))
    ctx.extra['traces_validated_against_impl'] = ctx.extra.get('traces_validated_against_impl', 0) + len(runs)
    if not any(r['cfg'].get('history') for r in runs):
        judge_reads(ctx, [(r, dict(kind='smtp', cfg=r['cfg'], script=r['script'])) for r in runs], 'smtp')


# ====================================================================== 3b. connection re-use after every kind of failed transaction
KEY_RESET = 'c19:reused-connection-not-reset-after-failed-transaction'


def _ms(**kw):
    return dict(OK_MS, **kw)


# message kinds for the scripted server: (message script, envelope spec, needs a 7-bit-only server)
PAIR_KINDS = collections.OrderedDict([
    ('ok', (_ms(), {}, False)),
    ('550+550', (_ms(rcpts=[1, 1], data=1), {}, False)),
    ('450+450', (_ms(rcpts=[3, 3], data=1), {}, False)),
    ('450+550', (_ms(rcpts=[3, 1], data=1), {}, False)),             # MIXED: reported per recipient
    ('550+450', (_ms(rcpts=[1, 3], data=1), {}, False)),
    ('450+550+450', (_ms(rcpts=[3, 1, 3], data=3), {}, False)),
    ('550+550/354', (_ms(rcpts=[1, 1]), {}, False)),                 # the server still says 354: empty data
    ('450+550/354', (_ms(rcpts=[3, 1]), {}, False)),
    ('550+450+550/354', (_ms(rcpts=[1, 3, 1]), {}, False)),
    ('some-rejected', (_ms(rcpts=[1, 0]), {}, False)),
    ('some-rejected-mixed', (_ms(rcpts=[3, 1, 0]), {}, False)),
    ('mail-rejected', (_ms(mail=1), {}, False)),
    ('mail-rejected-4xx', (_ms(mail=3), {}, False)),
    ('data-rejected', (_ms(data=1), {}, False)),
    ('content-rejected', (_ms(body=1), {}, False)),
    ('content-rejected-4xx', (_ms(body=3), {}, False)),
    ('unencodable-recipient', (_ms(), dict(rcpts=['r%da', 'r%dü']), False)),
    ('unencodable-sender', (_ms(), dict(sender='s%dü'), False)),
    ('8bit-content-7bit-server', (_ms(), {}, True)),
])


def canon_value(x):
    rep = getattr(x, 'reply', None)
    if isinstance(x, Exception):
        return ('exc', type(x).__name__, getattr(rep, 'code', None))
    return ('reply', getattr(x, 'code', None))


def canon_outcome(oc):
    if oc is None:
        return ('none',)
    if oc[0] == 'ok':
        if isinstance(oc[1], dict):
            return ('ok',) + tuple(sorted((k, canon_value(v)) for k, v in oc[1].items()))
        return ('ok', canon_value(oc[1]))
    return canon_value(oc[1])


def pair_cfg(kinds, pipe, lmtp, first_env=0):
    seven = any(PAIR_KINDS[k][2] for k in kinds)
    cs = dict(connect=1, handshake=0, hs_stage='ehlo', flavour='close', pipe=pipe, eightbit=0 if seven else 1, hold=0)
    cfg = dict(size=1, idle=7, nattempts=len(kinds), conn_scripts=[cs], lmtp=lmtp, first_env=first_env,
               env_scripts={}, env_8bit={}, env_spec={}, kinds=list(kinds),
               no_model=any('unencodable' in k for k in kinds))
    for i, k in enumerate(kinds):
        ms, spec, seven_k = PAIR_KINDS[k]
        cfg['env_scripts'][str(first_env + i)] = [dict(ms)]
        cfg['env_8bit'][str(first_env + i)] = bool(seven_k)
        if spec:
            cfg['env_spec'][str(first_env + i)] = dict(spec)
    return cfg


def run_sequence(cfg):
    """the messages one after the other (each attempt() returns before the next is made) through a
    pool of size 1 with connection re-use"""
    return run_smtp_case(cfg, [[['A']] for _ in cfg['kinds']])


_solo_cache = {}


def solo_outcome(kind, pipe, lmtp, seven, no):
    """the same message, alone, on a fresh connection to the same scripted server"""
    key = (kind, pipe, lmtp, seven, no)
    if key not in _solo_cache:
        cfg = pair_cfg([kind], pipe, lmtp, first_env=no)
        if seven:
            cfg['conn_scripts'][0]['eightbit'] = 0
        r = run_smtp_case(cfg, [[['A']]])
        _solo_cache[key] = (canon_outcome(r['outcomes'].get(no)), r['fails'])
    return _solo_cache[key]


def metamorphic(r, kinds, solo, fails, what):
    """every message's result on the (possibly re-used) connection = its result on a fresh one"""
    failed_before = False
    for i, k in enumerate(kinds):
        got = canon_outcome(r['outcomes'].get(i))
        want = solo(i, k)
        if got != want:
            key = KEY_RESET if (failed_before and '503' in repr(got)) else 'c19:result-differs-from-fresh-connection'
            fails.append((key, '%s: message %d (%s) after %r: result %r, on a fresh connection %r' % (what, i, k, kinds[:i], got, want)))
        if k != 'ok':
            failed_before = True


def pairs_stream(ctx):
    names = [k for k in PAIR_KINDS if k != 'ok']
    runs = []
    for lmtp in (0, 1):
        for pipe in (0, 1):
            seqs = [[a, 'ok'] for a in names]
            seqs += [[a, names[(j + 3) % len(names)], 'ok'] for j, a in enumerate(names)]
            seqs += [['ok', a, 'ok'] for a in names[::3]] + [[a, 'some-rejected'] for a in names[1::4]]
            for kinds in seqs:
                cfg = pair_cfg(kinds, pipe, lmtp)
                r = run_sequence(cfg)
                r['cfg'] = cfg
                seven = cfg['conn_scripts'][0]['eightbit'] == 0
                metamorphic(r, kinds, lambda i, k: solo_outcome(k, pipe, lmtp, seven, i)[0], r['fails'],
                            '%s pipelining=%d' % ('LMTP' if lmtp else 'SMTP', pipe))
                for i, k in enumerate(kinds):
                    for key, what in solo_outcome(k, pipe, lmtp, seven, i)[1]:
                        r['fails'].append((key, 'alone on a fresh connection (%s): %s' % (k, what)))
                runs.append(r)
                ctx.count('reuse-after-failure:' + kinds[0])
                ctx.count('reuse-sequences-' + ('lmtp' if lmtp else 'smtp'))
                if any(sum(1 for w in log if w[0] == W['mail']) >= 2 for log in r['wirelog'].values()):
                    ctx.count('reuse-sequence-shared-one-connection')
    judge_smtp(ctx, runs)


# ---------------------------------------------------------------------- the real slimta.smtp.server.Server as next hop
class DuplexEnd(object):
    """one end of an in-memory connection"""

    def __init__(self, world, fd, on_send=None):
        self.world = world
        self.fd = fd
        self.buf = collections.deque()
        self.peer = None
        self.waiter = None
        self.closed = False
        self.eof = False
        self.on_send = on_send

    def fileno(self):
        return self.fd

    def getpeername(self):
        return ('192.0.2.1', 25)

    def getsockname(self):
        return ('192.0.2.2', 40000)

    def recv(self, n=4096):
        while True:
            if self.buf:
                c = self.buf.popleft()
                if len(c) > n:
                    self.buf.appendleft(c[n:]); c = c[:n]
                return c
            if self.eof or self.closed:
                return b''
            self.waiter = GAsyncResult()
            try:
                self.waiter.get()
            finally:
                self.waiter = None

    def sendall(self, data):
        self.world.activity += 1
        data = bytes(data)
        if self.on_send:
            self.on_send(data)
        p = self.peer
        if p.closed or self.closed:
            raise socket.error(errno.EPIPE, 'closed')
        p.buf.append(data)
        if p.waiter is not None and not p.waiter.ready():
            p.waiter.set(None)

    def send(self, data):
        self.sendall(data)
        return len(data)

    def close(self):
        if not self.closed:
            self.closed = True
            p = self.peer
            p.eof = True
            if p.waiter is not None and not p.waiter.ready():
                p.waiter.set(None)
            if self.waiter is not None and not self.waiter.ready():
                self.waiter.set(None)


REAL_KINDS = collections.OrderedDict([
    ('ok', {}),
    ('550+550', dict(rcpts=['nobody%da', 'nobody%db'])),
    ('450+450', dict(rcpts=['busy%da', 'busy%db'])),
    ('450+550', dict(rcpts=['busy%da', 'nobody%db'])),
    ('550+450', dict(rcpts=['nobody%da', 'busy%db'])),
    ('450+550+450', dict(rcpts=['busy%da', 'nobody%db', 'busy%dc'])),
    ('some-rejected', dict(rcpts=['nobody%da', 'r%db'])),
    ('some-rejected-mixed', dict(rcpts=['busy%da', 'nobody%db', 'r%dc'])),
    ('mail-rejected', dict(sender='badsender%d')),
    ('data-rejected', dict(sender='nodata%d')),
    ('content-rejected', dict(refuse=True)),
    ('unencodable-recipient', dict(rcpts=['r%da', 'r%dü'])),
    ('unencodable-sender', dict(sender='s%dü')),
])


class RealServerWorld(SmtpWorld):
    """StaticSmtpRelay + SmtpRelayClient talking to the real slimta.smtp.server.Server over an
    in-memory connection; the server's handlers reject by address / content"""

    def __init__(self, pipe, env_spec, first_env=0):
        SmtpWorld.__init__(self, 1, 7, [], {}, {}, env_spec=env_spec)
        self.pipe = pipe
        self.nenv = first_env
        self.accepted = []         # (sender, recipients, X-Env) of every message the server took
        self.servers = []
        self.ends = {}

    def __exit__(self, *a):
        for g in self.servers:
            if not g.dead:
                g.kill(block=False)
        SmtpWorld.__exit__(self, *a)

    def create_conn(self, address):
        from slimta.smtp.server import Server
        from slimta.smtp import ConnectionLost
        c = self.cur()
        log = self.wirelog.setdefault(c, [])
        log.append((W['connect'],))
        world = self
        state = dict(sender=None, rcpts=[])

        def on_send(data):
            for line in data.split(b'\r\n'):
                up = line.upper()
                if up.startswith(b'MAIL FROM:'):
                    state['cur'] = addr_no(line)
                    log.append((W['mail'], state['cur']))
                elif up.startswith(b'RCPT TO:'):
                    log.append((W['rcpt'], addr_no(line)))
                elif up == b'DATA':
                    log.append((W['data'], state.get('cur', -1)))
                elif up == b'RSET':
                    log.append((W['rset'],))
                elif up == b'QUIT':
                    log.append((W['quit'],))

        class Handlers(object):
            def MAIL(self, reply, address, params):
                if address.startswith('hangmail'):
                    hang()
                if address.startswith('badsender'):
                    reply.code, reply.message = '550', '5.7.1 <%s> msg%d scripted-reject sender' % (address, addr_no(address))
                else:
                    state['sender'], state['rcpts'] = address, []

            def RCPT(self, reply, address, params):
                if address.startswith('hang'):
                    hang()
                if address.startswith('busy'):
                    reply.code, reply.message = '450', '4.2.1 <%s> msg%d scripted-reject mailbox busy' % (address, addr_no(address))
                elif address.startswith('nobody'):
                    reply.code, reply.message = '550', '5.1.1 <%s> msg%d scripted-reject no such user' % (address, addr_no(address))
                else:
                    state['rcpts'].append(address)

            def DATA(self, reply):
                if (state['sender'] or '').startswith('hangdata'):
                    hang()
                if (state['sender'] or '').startswith('nodata'):
                    reply.code, reply.message = '554', '5.7.1 msg%d scripted-reject data' % addr_no(state['sender'])

            def HAVE_DATA(self, reply, data, err):
                data = data or b''
                no = -1
                for line in data.split(b'\r\n'):
                    if line.lower().startswith(b'x-env:'):
                        no = int(line.split(b':')[1])
                if b'X-Hangup' in data:
                    log.append((W['body'], no))
                    hang()
                if b'X-Refuse-Me' in data or b'X-Defer-Me' in data:
                    reply.code, reply.message = ('554', '5.6.0 msg%d scripted-reject content' % no) if b'X-Refuse-Me' in data \
                        else ('451', '4.7.1 msg%d scripted-reject greylisted' % no)
                    log.append((W['body'], no))
                    return
                reply.message = '2.6.0 msg%d accepted' % no
                if not data:
                    log.append((W['empty'], state.get('cur', -1)))
                else:
                    log.append((W['body'], no))
                world.accepted.append((state['sender'], tuple(state['rcpts']), no))

            def RSET(self, reply):
                state['sender'], state['rcpts'] = None, []

        def hang():
            # the next hop goes away cleanly (FIN) in the middle of the exchange
            srv.close()
            raise ConnectionLost()

        fd = 2000 + len(self.ends)
        cli = DuplexEnd(self, fd, on_send)
        srv = DuplexEnd(self, fd + 500)
        cli.peer, srv.peer = srv, cli
        _close = cli.close

        def close_and_log():
            if not cli.closed:
                log.append((W['close'],))
                world.open_conns.discard(cli)
            _close()
        cli.close = close_and_log
        self.ends[fd] = cli
        server = Server(srv, Handlers(), address=('192.0.2.2', 40000))
        server.extensions.drop('SMTPUTF8')
        if not self.pipe:
            server.extensions.drop('PIPELINING')

        def serve():
            try:
                server.handle()
            except Exception:
                pass
            finally:
                srv.close()
        self.servers.append(gevent.spawn(serve))
        self.open_conns.add(cli)
        self.max_open = max(self.max_open, len(self.open_conns))
        return cli

    def wait_read(self, fd, timeout=None, timeout_exc=None):
        e = self.ends[fd]
        if e.buf or e.eof:
            return
        raise timeout_exc

    def note_poll(self, c, item):
        self.polls.setdefault(c, []).append(None if item is None else (item[0].slot, item[1].no, OK_MS))

    def result_kind(self, ok, value):
        if ok:
            if isinstance(value, dict) and value and all(isinstance(v, Exception) for v in value.values()):
                return 3
            return 0
        return 1


def run_real_sequence(kinds, pipe, first_env=0):
    spec = {first_env + i: dict(REAL_KINDS[k]) for i, k in enumerate(kinds)}
    w = RealServerWorld(pipe, spec, first_env)
    fails = []
    with w:
        w.start()
        for _ in kinds:
            w.do(('A',))
            w.settle()
            oracle_settled(w, 1, 'real server, after an attempt', fails)
        for _ in range(6):
            if not w.timers:
                break
            w.advance(max(min(t[0] for t in w.timers) - w.now, 1))
            w.settle()
        if [g for g in w.attempt_greenlets if not g.dead]:
            fails.append(('c19:attempt-never-answered', 'real server: an attempt is still blocked'))
        for c, log in sorted(w.wirelog.items()):
            e1 = py_one_at_a_time(log)
            if e1:
                fails.append(('c19:two-messages-on-one-connection', 'real server, client %d: %s; wire %r' % (c, e1, log)))
            e2 = py_reset_after_failure(log)
            if e2:
                fails.append((KEY_RESET, 'real server, client %d: %s; wire %r' % (c, e2, log)))
        own_replies_oracle(w.outcomes, fails, 'real Server')
        fails.extend(w.problems)
        return dict(outcomes=dict(w.outcomes), accepted=list(w.accepted), fails=fails, raw=list(w.raw),
                    reads={c: list(v) for c, v in w.reads.items()},
                    wirelog={c: list(v) for c, v in w.wirelog.items()}, nclients=len(w.clients))


_real_solo = {}


def real_solo(kind, pipe, no):
    key = (kind, pipe, no)
    if key not in _real_solo:
        r = run_real_sequence([kind], pipe, first_env=no)
        _real_solo[key] = (canon_outcome(r['outcomes'].get(no)), r['accepted'], r['fails'])
    return _real_solo[key]


def realserver_stream(ctx):
    names = [k for k in REAL_KINDS if k != 'ok']
    runs = []
    for pipe in (0, 1):
        seqs = [[a, 'ok'] for a in names] + [[a, names[(j + 2) % len(names)], 'ok'] for j, a in enumerate(names)]
        seqs += [['ok', a, 'ok'] for a in names[::2]]
        for kinds in seqs:
            r = run_real_sequence(kinds, pipe)
            case = dict(kind='realserver', kinds=kinds, pipe=pipe)
            metamorphic(r, kinds, lambda i, k: real_solo(k, pipe, i)[0], r['fails'], 'real Server pipelining=%d' % pipe)
            want = [m for i, k in enumerate(kinds) for m in real_solo(k, pipe, i)[1]]
            if r['accepted'] != want:
                r['fails'].append((KEY_RESET if any(k != 'ok' for k in kinds) else 'c19:next-hop-accepted-other-messages',
                                   'real Server accepted %r, each message alone on a fresh connection gives %r' % (r['accepted'], want)))
            for m in r['accepted']:
                if addr_no(m[0] or '') != m[2] or any(addr_no(x) != m[2] for x in m[1]):
                    r['fails'].append(('c19:two-messages-on-one-connection', 'real Server accepted a message mixing envelopes: %r' % (m,)))
            ctx.evaluated(('realserver', tuple(kinds), pipe), nontrivial=True)
            ctx.count('realserver-sequences')
            ctx.count('events-validated', len(r['raw']))
            if any(sum(1 for x in log if x[0] == W['mail']) >= 2 for log in r['wirelog'].values()):
                ctx.count('realserver-connection-reused')
            for key, what in r['fails']:
                ctx.fail(key, case, what)
            r.update(size=1, idle=7)
            runs.append((r, case))
    mouts = ctx.model.batch('c19_run', [[enc_cfg(1, 7), [enc_ev(ev) for ev, cur, snap in r['raw']]] for r, case in runs])
    for (r, case), mo in zip(runs, mouts):
        validate_trace(ctx, 'realserver-pool-trace', case, None, r['raw'], mo)
    ctx.extra['traces_validated_against_impl'] = ctx.extra.get('traces_validated_against_impl', 0) + len(runs)


# ====================================================================== 3c. whose reply is inside a result
KEY_FOREIGN = 'c19:result-carries-another-messages-reply'
SYNTHETIC = re.compile(r'^(4\.3\.0 |4\.4\.2 Connection timed out|4\.3\.0 Connection failed|5\.6\.3 Conversion not allowed|'
                       r'5\.6\.7 Address requires SMTPUTF8)')


def replies_of(oc):
    """every Reply inside an attempt's outcome: per recipient and whole-message"""
    out = []
    vals = list(oc[1].values()) if (oc[0] == 'ok' and isinstance(oc[1], dict)) else [oc[1]]
    for v in vals:
        rep = getattr(v, 'reply', None) if isinstance(v, Exception) else v
        if rep is not None and hasattr(rep, 'code'):
            out.append(rep)
    return out


def reply_tags(rep):
    text = rep.message or ''
    tags = set(int(x) for x in re.findall(r'msg(\d+)', text))
    for a in re.findall(r'<([^>]*)>', text):
        if addr_no(a) >= 0:
            tags.add(addr_no(a))
    return tags


def own_replies_oracle(outcomes, fails, where):
    """content-aware: a result only carries replies the next hop issued for THIS message's own
    commands (every scripted reply names its message / recipient), or one of the client's own"""
    for no, oc in sorted(outcomes.items()):
        for rep in replies_of(oc):
            foreign = sorted(t for t in reply_tags(rep) if t != no)
            if foreign:
                fails.append((KEY_FOREIGN, '%s: the result of attempt(envelope %d) carries the reply %s %r, which the next hop issued for message %r'
                              % (where, no, rep.code, rep.message, foreign)))


def read_trace_inputs(reads):
    """per client: the reads up to the first failed read / abort, as input of c19_reads"""
    tr = []
    for ev in reads:
        if ev[0] == 'abort':
            break
        if ev[0] == 'read':
            tr.append([max(ev[1], 0), ev[2]])
            if ev[2] == 4:
                break
    return tr


def judge_reads(ctx, runs, label):
    """the replies read on each connection -> model of Client.last_error/_get_error_reply: the trace
    must satisfy the theorem's hypotheses and the reply inside a lost-connection result must come
    from where the model says"""
    inputs, idx = [], []
    for i, (r, case) in enumerate(runs):
        for c, reads in sorted(r['reads'].items()):
            tr = read_trace_inputs(reads)
            if tr:
                inputs.append(tr); idx.append((i, c))
    outs = ctx.model.batch('c19_reads', inputs)
    for (i, c), tr, mo in zip(idx, inputs, outs):
        r, case = runs[i]
        wf, srcs = mo
        ctx.count(label + '-read-traces')
        case2 = dict(case, client=c)
        if not wf:
            ctx.mismatch(label + ':read-trace-outside-the-hypotheses', case2, tr, 'wf_reads = false')
            continue
        if not srcs:
            continue
        m, src = srcs[-1]
        ctx.count(label + '-lost-reads')
        reads = r['reads'][c]
        k = max(j for j, ev in enumerate(reads) if ev[0] == 'read' and ev[2] == 4)
        if any(ev[0] == 'result' and ev[1] == m for ev in reads[:k]):
            continue                      # the request was completed before the connection broke
        oc = r['outcomes'].get(m)
        if oc is None or oc[0] != 'exc' or getattr(oc[1], 'reply', None) is None:
            continue                      # put back / not completed by the SmtpError arm
        rep = oc[1].reply
        real = sorted(reply_tags(rep))
        model = list(src)
        if real != model and not (model == [] and real == [m] and rep.code != '421'):
            ctx.mismatch(label + ':lost-result-reply-source', case2, dict(message=m, reply=[rep.code, rep.message], from_messages=real), dict(from_messages=model))
        if src:
            ctx.count(label + '-lost-result-passes-on-own-421')


# A: what is left behind on the connection; B: the next hop goes away at each stage; C: a good message
CLOSE_A = collections.OrderedDict([
    ('ok', _ms()),
    ('one-recipient-deferred', _ms(rcpts=[3, 0])),
    ('one-recipient-rejected', _ms(rcpts=[0, 1])),
    ('deferred-after-data', _ms(body=3)),
    ('all-rejected', _ms(rcpts=[1, 3], data=1)),
])
CLOSE_B = collections.OrderedDict([
    ('closed-before-mail', _ms(pre=1)),
    ('closed-at-mail', _ms(mail=2)),
    ('closed-at-first-rcpt', _ms(rcpts=[2, 0])),
    ('closed-at-second-rcpt', _ms(rcpts=[0, 2])),
    ('closed-at-data', _ms(data=2)),
    ('closed-after-content', _ms(body=2)),
    ('421-at-rcpt', _ms(rcpts=[0, 4])),
    ('421-at-mail', _ms(mail=4)),
    ('421-after-content', _ms(body=4)),
])


def closing_stream(ctx):
    runs = []
    for lmtp in (0, 1):
        for pipe in (0, 1):
            for an, a in CLOSE_A.items():
                for bn, b in CLOSE_B.items():
                    cs = dict(connect=1, handshake=0, hs_stage='ehlo', flavour='close', pipe=pipe, eightbit=1, hold=0)
                    cfg = dict(size=1, idle=7, nattempts=3, conn_scripts=[cs], lmtp=lmtp, first_env=0, no_model=True,
                               env_scripts={'0': [dict(a)], '1': [dict(b)], '2': [dict(OK_MS)]}, env_8bit={}, env_spec={},
                               history=[an, bn, 'ok'])
                    r = run_smtp_case(cfg, [[['A']], [['A']], [['A']]])
                    r['cfg'] = cfg
                    # B alone on a fresh connection to the same script gives the same result
                    solo = run_smtp_case(dict(cfg, first_env=1, nattempts=1), [[['A']]])
                    if canon_outcome(r['outcomes'].get(1)) != canon_outcome(solo['outcomes'].get(1)):
                        r['fails'].append((KEY_FOREIGN if canon_outcome(r['outcomes'].get(1))[:1] == ('exc',) else 'c19:result-differs-from-fresh-connection',
                                           'message 1 (%s) after %s: result %r, alone on a fresh connection %r' % (
                                               bn, an, canon_outcome(r['outcomes'].get(1)), canon_outcome(solo['outcomes'].get(1)))))
                    ctx.count('closing-history-A:' + an)
                    ctx.count('closing-history-B:' + bn)
                    runs.append(r)
    judge_smtp(ctx, runs)
    judge_reads(ctx, [(r, dict(kind='smtp', cfg=r['cfg'], script=r['script'])) for r in runs], 'closing')


REAL_CLOSE_A = collections.OrderedDict([
    ('ok', {}),
    ('one-recipient-deferred', dict(rcpts=['busy%da', 'r%db'])),
    ('one-recipient-rejected', dict(rcpts=['r%da', 'nobody%db'])),
    ('deferred-after-data', dict(hdr='X-Defer-Me')),
    ('all-rejected', dict(rcpts=['nobody%da', 'busy%db'])),
])
REAL_CLOSE_B = collections.OrderedDict([
    ('closed-at-mail', dict(sender='hangmail%d')),
    ('closed-at-first-rcpt', dict(rcpts=['hang%da', 'r%db'])),
    ('closed-at-second-rcpt', dict(rcpts=['r%da', 'hang%db'])),
    ('closed-at-data', dict(sender='hangdata%d')),
    ('closed-after-content', dict(hdr='X-Hangup')),
])
REAL_KINDS.update(('A:' + k, v) for k, v in REAL_CLOSE_A.items())
REAL_KINDS.update(('B:' + k, v) for k, v in REAL_CLOSE_B.items())


def real_closing_stream(ctx):
    runs = []
    for pipe in (0, 1):
        for an in REAL_CLOSE_A:
            for bn in REAL_CLOSE_B:
                kinds = ['A:' + an, 'B:' + bn, 'ok']
                r = run_real_sequence(kinds, pipe)
                case = dict(kind='realserver', kinds=kinds, pipe=pipe)
                metamorphic(r, kinds, lambda i, k: real_solo(k, pipe, i)[0], r['fails'], 'real Server pipelining=%d' % pipe)
                ctx.evaluated(('realserver-closing', tuple(kinds), pipe), nontrivial=True)
                ctx.count('realserver-closing-histories')
                for key, what in r['fails']:
                    ctx.fail(key, case, what)
                runs.append((r, case))
    judge_reads(ctx, runs, 'realserver-closing')


# ====================================================================== 3d. how the client is constructed; how many attempts wait
def ehlo_stream(ctx):
    """overlapping attempts on bounded pools, for every documented form of ehlo_as: the client's
    constructor runs inside the pool's check-then-add section"""
    runs = []
    for ehlo in ('str', 'callable', 'yielding', 'none'):
        for size in (1, 2, 3):
            for idle in (None, 7):
                for burst in ([3], [2, 2], [1, 3, 1]):
                    cs = dict(connect=1, handshake=0, hs_stage='ehlo', flavour='close', pipe=0, eightbit=1, hold=0)
                    cfg = dict(size=size, idle=idle, nattempts=sum(burst), conn_scripts=[cs], ehlo_as=ehlo,
                               env_scripts={}, env_8bit={})
                    r = run_smtp_case(cfg, [[['A']] * n for n in burst])
                    r['cfg'] = cfg
                    runs.append(r)
                    ctx.count('ehlo_as:' + ehlo)
    judge_smtp(ctx, runs)


COUNTS_QUICK = [(1, 1), (2, 2), (10, 1), (200, 2), (1023, 1), (1024, 2), (1025, 1), (1100, 2), (3000, 1)]
COUNTS_THOROUGH = [(n, size) for n in (1, 2, 10, 200, 1023, 1024, 1025, 1100, 3000) for size in (1, 2)]


def run_count_case(n, size, idle=7):
    """n attempts made at the same moment on a small pool in front of a fast server"""
    cs = dict(connect=1, handshake=0, hs_stage='ehlo', flavour='close', pipe=1, eightbit=1, hold=0)
    w = SmtpWorld(size, idle, [cs], {}, {})
    w.light = True
    fails = []
    with w:
        w.start()
        for _ in range(n):
            w.do(('A',))
        w.settle()
        for _ in range(20):
            if not [g for g in w.attempt_greenlets if not g.dead]:
                break
            if w.timers:
                w.advance(max(min(t[0] for t in w.timers) - w.now, 1))
            w.settle()
        p = w.pool
        pending = sorted(no for no in range(n) if no not in w.outcomes)
        if pending:
            fails.append(('c19:attempt-never-answered', '%d of %d simultaneous attempts never returned (first: envelope %d); queue length %d, semaphore %d'
                          % (len(pending), n, pending[0], len(p.queue), p.queue.sema.counter)))
        if len(p.queue) > 0:
            fails.append(('c19:stranded-request', '%d request(s) left in the queue' % len(p.queue)))
        wrong = [no for no, oc in w.outcomes.items()
                 if not (oc[0] == 'ok' and isinstance(oc[1], dict) and oc[1] and all(addr_no(k) == no for k in oc[1]))]
        if wrong:
            fails.append(('c19:result-of-another-envelope', '%d attempts did not get the result of their own envelope (first: %d -> %r)'
                          % (len(wrong), wrong[0], w.outcomes[wrong[0]])))
        twice = [r.slot for r in w.slots if r.nset != 1]
        if twice and not pending:
            fails.append(('c19:result-completed-twice', 'slots completed other than exactly once: %r' % (twice[:5],)))
        for c, e in w.deaths:
            fails.append(('c19:client-died-unexpectedly', 'client %d ended with %r' % (c, e)))
        if w.sema_off or p.queue.sema.counter != len(p.queue):
            fails.append(('c19:deque-sema-differs-from-length', 'first seen at %r; at the end counter %d, length %d'
                          % (w.sema_off[:1], p.queue.sema.counter, len(p.queue))))
        if size and (w.max_pool > size or w.max_open > size):
            fails.append(('c19:pool-exceeds-bound', 'pool reached %d clients / %d connections, size %d' % (w.max_pool, w.max_open, size)))
        fails.extend(k for k in w.problems if k[0] != 'c19:result-completed-twice')
        seen = sum(len(c.served) if hasattr(c, 'served') else 0 for c in w.conns)
    return dict(fails=fails, answered=len(w.outcomes), nclients=len(w.clients))


def count_stream(ctx):
    for n, size in (COUNTS_QUICK if ctx.quick else COUNTS_THOROUGH):
        r = run_count_case(n, size)
        case = dict(kind='count', n=n, size=size)
        ctx.evaluated(('count', n, size), nontrivial=n >= 10)
        ctx.count('simultaneous-attempts:%d' % n)
        for key, what in r['fails']:
            ctx.fail(key, case, what)


# ====================================================================== 4. HttpRelay: real HttpRelayClient + real http.client over a fake socket
HW = dict(request=0, connect=1, response=2, close=3, result=4)
HFLAV = {'ok': 0, 'rej': 1, 'rej-noheader': 1, 'refused': 2, 'silent': 3, 'hangup': 4, 'slow': 0}


class _Raw(io.RawIOBase):
    def __init__(self, sock):
        io.RawIOBase.__init__(self)
        self.sock = sock

    def readable(self):
        return True

    def readinto(self, b):
        data = self.sock.recv(len(b))
        b[:len(data)] = data
        return len(data)


class FakeHttpSock(object):
    """client side socket of one scripted HTTP server connection"""

    def __init__(self, world, idx, owner):
        self.world = world
        self.idx = idx
        self.owner = owner
        self.inbuf = b''
        self.out = collections.deque()
        self.eof = False
        self.waiter = None
        self.held = None
        self.held_poll = None
        self.closed = False
        self.served = []

    def setsockopt(self, *a):
        pass

    def settimeout(self, t):
        pass

    def makefile(self, mode='rb', *a, **kw):
        return io.BufferedReader(_Raw(self))

    def recv(self, n=4096):
        while True:
            if self.out:
                c = self.out.popleft()
                if len(c) > n:
                    self.out.appendleft(c[n:]); c = c[:n]
                return c
            if self.eof or self.closed:
                return b''
            self.waiter = GAsyncResult()
            try:
                self.waiter.get()
            finally:
                self.waiter = None

    def sendall(self, data):
        self.world.activity += 1
        self.inbuf += bytes(data)
        self.process()

    def close(self):
        if not self.closed:
            self.closed = True
            self.world.open_conns.discard(self)
            if self.held is not None:
                # the client gave up before the harness released the response: a mute server
                self.held = None
                if self.held_poll is not None:
                    self.held_poll[2] = HFLAV['silent']

    def push(self, data):
        self.out.append(data)
        if self.waiter is not None and not self.waiter.ready():
            self.waiter.set(None)

    def hangup(self):
        self.eof = True
        if self.waiter is not None and not self.waiter.ready():
            self.waiter.set(None)

    def release(self):
        if self.held is not None:
            h, self.held = self.held, None
            h()

    def process(self):
        while True:
            k = self.inbuf.find(b'\r\n\r\n')
            if k < 0:
                return
            head = self.inbuf[:k].split(b'\r\n')
            clen = 0
            for line in head[1:]:
                if line.lower().startswith(b'content-length:'):
                    clen = int(line.split(b':')[1])
            if len(self.inbuf) < k + 4 + clen:
                return
            body, self.inbuf = self.inbuf[k + 4:k + 4 + clen], self.inbuf[k + 4 + clen:]
            no = -1
            for line in body.split(b'\r\n'):
                if line.lower().startswith(b'x-env:'):
                    no = int(line.split(b':')[1])
            self.served.append(no)
            self.world.requests_seen.append(no)
            fl = self.world.env_flavour.get(no, 'ok')
            ok = (b'HTTP/1.1 200 OK\r\nX-Smtp-Reply: 250; message="2.0.0 queued env %d"\r\n'
                  b'Content-Length: 2\r\n\r\nok' % no)
            if fl == 'ok':
                self.push(ok)
            elif fl == 'rej':
                self.push(b'HTTP/1.1 550 Rejected\r\nX-Smtp-Reply: 550; message="5.0.0 scripted-reject env %d"\r\n'
                          b'Content-Length: 0\r\n\r\n' % no)
            elif fl == 'rej-noheader':
                self.push(b'HTTP/1.1 500 Server Error env %d\r\nContent-Length: 5\r\n\r\nsorry' % no)
            elif fl in ('hangup', 'refused'):
                self.hangup()
            elif fl == 'slow':
                self.held = lambda ok=ok: self.push(ok)
                self.held_poll = self.world.cur_poll.get(self.owner)
            # 'silent': nothing, ever


class HttpWorld(World):
    def __init__(self, size, idle, env_flavour):
        World.__init__(self)
        self.size = size
        self.idle = idle
        self.env_flavour = env_flavour
        self.open_conns = set()
        self.max_open = 0
        self.socks = []
        self.attempt_greenlets = []
        self.outcomes = {}
        self.nenv = 0
        self.wirelog = {}
        self.polls = {}
        self.cur_poll = {}
        self.requests_seen = []

    def __enter__(self):
        import slimta.relay.http as httpmod
        import slimta.http as shttp
        World.__enter__(self)
        world = self
        self._http_saved = (httpmod.gevent, shttp.HTTPConnection)
        REAL = shttp.HTTPConnection

        class TracedConn(REAL):
            """the real slimta.http.HTTPConnection (http.client state machine included); only the
            socket factory is replaced and three calls are logged"""

            def __init__(self, *a, **kw):
                REAL.__init__(self, *a, **kw)
                self._create_connection = world.http_connect

            def putrequest(self, *a, **kw):
                world.hlog((HW['request'], world.held_env()))
                return REAL.putrequest(self, *a, **kw)

            def getresponse(self):
                r = REAL.getresponse(self)
                world.hlog((HW['response'], world.held_env()))
                return r

            def close(self):
                log = world.wirelog.get(world.cur())
                if log and log[-1] != (HW['close'],):
                    log.append((HW['close'],))
                return REAL.close(self)

        shttp.HTTPConnection = TracedConn
        httpmod.gevent = types.SimpleNamespace(Timeout=self.VTimeout)
        return self

    def __exit__(self, *a):
        import slimta.relay.http as httpmod
        import slimta.http as shttp
        httpmod.gevent, shttp.HTTPConnection = self._http_saved
        World.__exit__(self, *a)

    def hlog(self, w):
        self.wirelog.setdefault(self.cur(), []).append(w)

    def held_env(self):
        h = self.holding.get(self.cur())
        return h[1].no if h is not None else -1

    def http_connect(self, address, timeout=None, source_address=None):
        c = self.cur()
        self.hlog((HW['connect'],))
        if self.env_flavour.get(self.held_env(), 'ok') == 'refused':
            raise socket.error(errno.ECONNREFUSED, 'scripted refusal')
        s = FakeHttpSock(self, len(self.socks), c)
        self.socks.append(s)
        self.open_conns.add(s)
        self.max_open = max(self.max_open, len(self.open_conns))
        return s

    def start(self):
        import slimta.relay.http as httpmod
        world = self

        class TracedHttpClient(httpmod.HttpRelayClient):
            def __init__(self, relay):
                super(TracedHttpClient, self).__init__(relay)
                self.no = world.register(self)

            def _run(self):
                try:
                    return super(TracedHttpClient, self)._run()
                finally:
                    world.on_finish(self)

        class TracedHttpRelay(httpmod.HttpRelay):
            def add_client(self):
                return TracedHttpClient(self)

            def _remove_client(self, client):
                super(TracedHttpRelay, self)._remove_client(client)
                world.on_removed(client)

        self.pool = TracedHttpRelay('http://192.0.2.1/deliver', pool_size=self.size, ehlo_as='harness',
                                    timeout=10, idle_timeout=self.idle)

    def note_poll(self, c, item):
        if item is None:
            self.polls.setdefault(c, []).append(None)
            return
        rec = [item[0].slot, item[1].no, HFLAV[self.env_flavour.get(item[1].no, 'ok')]]
        self.cur_poll[c] = rec
        self.polls.setdefault(c, []).append(rec)

    def result_kind(self, ok, value):
        if ok:
            return 0
        return 2 if str(value).startswith('Delivery ') else 1

    def on_result(self, res, ok, value):
        c = self.cur()
        held = self.holding.get(c) if c is not None else None
        World.on_result(self, res, ok, value)
        if held is not None and held[0] is res:
            self.hlog((HW['result'], held[1].no, 1 if ok else 0))

    def _attempt(self, env):
        try:
            v = self.pool.attempt(env, 0)
            self.outcomes[env.no] = ('ok', v)
        except Exception as e:
            self.outcomes[env.no] = ('exc', e)
        self.activity += 1

    def do(self, act):
        if act[0] == 'A':
            env = make_env(self.nenv)
            self.nenv += 1
            self.attempt_greenlets.append(gevent.spawn(self._attempt, env))
        elif act[0] == 'T':
            self.advance(act[1])
        elif act[0] == 'M':
            self.socks[act[1]].release()

    def options(self, rng, allow_attempt):
        opts = []
        if allow_attempt:
            opts += [('A',)] * 3
        for i, s in enumerate(self.socks):
            if s.held is not None:
                opts += [('M', i)] * 2
        if self.timers:
            nxt = min(t[0] for t in self.timers) - self.now
            opts += [('T', max(nxt, 1)), ('T', max(nxt, 1)), ('T', max(nxt - 1, 1))]
        return opts


def py_http_clean(log):
    st = None          # None clean, ('open', e), 'dirty'
    for w in log:
        t = w[0]
        if t == HW['request']:
            if st is not None:
                return 'request for envelope %r while the connection is %s' % (
                    w[1], 'still inside the broken exchange of an earlier message (no close() in between)' if st == 'dirty'
                    else 'inside the exchange of envelope %r' % (st[1],))
            st = ('open', w[1])
        elif t == HW['response']:
            if not (isinstance(st, tuple) and st[1] == w[1]):
                return 'response read for envelope %r outside its exchange' % (w[1],)
            st = None
        elif t == HW['close']:
            st = None
        elif t == HW['result']:
            if isinstance(st, tuple):
                if st[1] != w[1]:
                    return 'result for envelope %r during the exchange of envelope %r' % (w[1], st[1])
                st = 'dirty'
    return None


def run_http_case(size, idle, flavours, script, rng=None, nsteps=0, nattempts=0):
    w = HttpWorld(size, idle, dict(enumerate(flavours)))
    fails = []
    out_script = []
    with w:
        w.start()
        i = 0
        while True:
            if script is not None:
                if i >= len(script):
                    break
                step = [tuple(a) for a in script[i]]
            else:
                if i >= nsteps:
                    break
                opts = w.options(rng, w.nenv < nattempts)
                if not opts:
                    break
                step = [rng.choice(opts)]
                if step[0][0] == 'A' and w.nenv + 1 < nattempts and rng.random() < 0.3:
                    step.append(('A',))
            i += 1
            out_script.append([list(a) for a in step])
            for a in step:
                w.do(a)
            w.settle()
            oracle_settled(w, size, 'after step %d %r' % (i, step), fails)
        while w.nenv < (nattempts if script is None else 0):
            w.do(('A',)); w.settle()
            out_script.append([['A']])
        # drain: release held responses, let the clock run until every attempt is answered
        for _ in range(60):
            if not [g for g in w.attempt_greenlets if not g.dead]:
                break
            held = [k for k, s in enumerate(w.socks) if s.held is not None]
            if held:
                for k in held:
                    w.do(('M', k))
            elif w.timers:
                w.advance(max(min(t[0] for t in w.timers) - w.now, 1))
            else:
                break
            w.settle()
        oracle_settled(w, size, 'after drain', fails)
        pending = sorted(no for no in range(w.nenv) if no not in w.outcomes)
        if pending:
            fails.append(('c19:attempt-never-answered', 'attempt(s) for envelope(s) %r still blocked after the drain phase' % (pending,)))
        if size and w.max_open > size:
            fails.append(('c19:connections-exceed-bound', '%d open connections, size %d' % (w.max_open, size)))
        for i2, (ev, cur, snap) in enumerate(w.raw):
            if size and len(snap[0]) > size:
                fails.append(('c19:pool-exceeds-bound', 'event %d %r: pool %r, size %d' % (i2, ev, snap[0], size)))
                break
        if any(ev[0] == 'abandon' for ev, cur, snap in w.raw):
            fails.append(('c19:http-client-breaks-contract', 'a client dropped its request without completing it'))
        dirty = {}
        for c, log in sorted(w.wirelog.items()):
            e1 = py_http_clean(log)
            if e1:
                dirty[c] = e1
                fails.append(('c19:http-connection-not-reset-after-failed-exchange', 'client %r: %s; log %r' % (c, e1, log)))
        # every attempt gets the result of its OWN envelope, and the one its server gave
        eff = {}
        for c, pl in w.polls.items():
            for p in pl:
                if p is not None:
                    eff[p[1]] = p[2]
        for no, oc in sorted(w.outcomes.items()):
            fl = eff.get(no)
            text = str(getattr(oc[1], 'message', None) or getattr(getattr(oc[1], 'reply', None), 'message', None) or oc[1])
            if oc[0] == 'ok' or 'env ' in text:
                if ('env %d' % no) not in text or (oc[0] == 'ok' and getattr(oc[1], 'code', None) != '250'):
                    fails.append(('c19:result-of-another-envelope', 'attempt(envelope %d) received %r' % (no, text)))
            if fl == 0 and oc[0] != 'ok':
                fails.append(('c19:http-healthy-delivery-failed',
                              'the server answers envelope %d with 200/250 (requests it saw: %r) but attempt() raised %r' % (no, w.requests_seen, oc[1])))
            if fl in (2, 3, 4) and not (oc[0] == 'exc' and type(oc[1]).__name__ == 'TransientRelayError'):
                fails.append(('c19:http-broken-exchange-not-transient', 'envelope %d (server refused/mute/hung up): %r' % (no, oc)))
        fails.extend(w.problems)
        return dict(raw=list(w.raw), fails=fails, script=out_script, nenv=w.nenv,
                    polls={c: [None if p is None else list(p) for p in v] for c, v in w.polls.items()},
                    wirelog={c: list(v) for c, v in w.wirelog.items()}, nclients=len(w.clients),
                    finished=set(w.finished), max_open=w.max_open)


HTTP_FIXED = [
    # delivery #0 stalls past the timeout, delivery #1 (healthy) must get its own 250
    (['silent', 'ok'], [[['A']], [['T', 10]], [['A']]]),
    (['silent', 'ok'], [[['A']], [['A']], [['T', 10]]]),
    (['silent', 'ok', 'ok'], [[['A']], [['T', 9]], [['A']], [['T', 1]], [['A']]]),
    (['slow', 'ok'], [[['A']], [['T', 10]], [['A']]]),               # response never released in time
    (['slow', 'ok'], [[['A']], [['T', 5]], [['M', 0]], [['A']]]),    # slow but in time: both 250
    (['slow', 'ok'], [[['A']], [['A']], [['T', 10]], [['M', 0]]]),   # late response after the give-up
    (['hangup', 'ok'], [[['A']], [['A']]]),
    (['refused', 'ok'], [[['A']], [['A']]]),
    (['ok', 'silent', 'ok'], [[['A']], [['A']], [['T', 10]], [['A']]]),
    (['ok', 'hangup', 'ok', 'refused', 'ok'], [[['A']], [['A']], [['A']], [['A']], [['A']]]),
    (['rej', 'ok', 'rej-noheader', 'ok'], [[['A']], [['A']], [['A']], [['A']]]),
]


def http_stream(ctx, ncases):
    rng = ctx.rng
    runs = []
    for flavours, script in HTTP_FIXED:
        for size in (1, 2):
            for idle in (None, 25):
                r = run_http_case(size, idle, flavours, script)
                r.update(size=size, idle=idle, flavours=flavours)
                runs.append(r)
                ctx.count('http-fixed-scenarios')
    for _ in range(ncases):
        size = rng.choice([1, 1, 2, 3, None])
        idle = rng.choice([None, 25, 25])
        n = rng.randrange(1, 6)
        flavours = [rng.choice(['ok', 'ok', 'ok', 'rej', 'rej-noheader', 'refused', 'silent', 'hangup', 'slow', 'slow']) for _ in range(n)]
        r = run_http_case(size, idle, flavours, None, rng=rng, nsteps=rng.randrange(2, 12), nattempts=n)
        r.update(size=size, idle=idle, flavours=flavours)
        runs.append(r)
    mouts = ctx.model.batch('c19_run', [[enc_cfg(r['size'], r['idle']), [enc_ev(ev) for ev, cur, snap in r['raw']]] for r in runs])
    hin, hidx = [], []
    for i, r in enumerate(runs):
        for c in range(r['nclients']):
            hin.append([0 if r['idle'] is None else 1, [[] if p is None else p for p in r['polls'].get(c, [])]])
            hidx.append((i, c))
    houts = ctx.model.batch('c19_http', hin)
    for r, mo in zip(runs, mouts):
        case = dict(kind='http', size=r['size'], idle=r['idle'], flavours=r['flavours'], script=r['script'])
        broken = [f for f in r['flavours'] if f in ('refused', 'silent', 'hangup', 'slow')]
        ctx.evaluated(('http', r['size'], r['idle'], tuple(r['flavours']), repr(r['script'])),
                      nontrivial=len(r['flavours']) >= 2 and bool(broken) and 'ok' in r['flavours'])
        ctx.count('http-cases')
        for f in set(r['flavours']):
            ctx.count('http-server:' + f)
        if any(sum(1 for w in log if w[0] == HW['request']) >= 2 and sum(1 for w in log if w[0] == HW['connect']) == 1 for log in r['wirelog'].values()):
            ctx.count('http-connection-reused')
        ctx.count('events-validated', len(r['raw']))
        validate_trace(ctx, 'http-pool-trace', case, None, r['raw'], mo)
        for key, what in r['fails']:
            ctx.fail(key, case, what)
    ACT = {'enterpoll': 0, 'poll': 1, 'idle': 2, 'done': 3, 'requeue': 4, 'giveup': 5}
    for (i, c), ho in zip(hidx, houts):
        r = runs[i]
        case = dict(kind='http', size=r['size'], idle=r['idle'], flavours=r['flavours'], script=r['script'], client=c)
        m_wire, m_acts, m_exited, m_clean, m_contract = ho
        real_wire = tuple(tuple(w) for w in r['wirelog'].get(c, []))
        model_wire = tuple(tuple(w) for w in m_wire)
        ctx.count('http-clients-compared')
        if real_wire != model_wire:
            ctx.mismatch('http-wire', case, real_wire, model_wire)
        real_acts = tuple((ACT[ev[0]],) + ((ev[2],) if ev[0] == 'done' else ()) for ev in client_acts(r['raw'], c))
        model_acts = tuple((a[0],) + ((a[2],) if a[0] == 3 else ()) for a in m_acts)
        if real_acts != model_acts:
            ctx.mismatch('http-client-actions', case, real_acts, model_acts)
        if bool(m_exited) != (c in r['finished']):
            ctx.mismatch('http-client-exited', case, c in r['finished'], m_exited)
        if not (m_clean and m_contract):
            ctx.mismatch('http-model-checker-false', case, None, (m_clean, m_contract))
    ctx.extra['traces_validated_against_impl'] = ctx.extra.get('traces_validated_against_impl', 0) + len(runs)


# ====================================================================== 5. bounded exhaustive exploration of the scripted pool
def explore(ctx, size, idle, max_attempts, max_depth, budget):
    """breadth-first over harness actions from the initial state: every distinct settled state of
    the real pool is expanded once with every action valid in it; each run is validated like the
    random ones.  Returns (states, transitions, exhausted)."""
    seen = {}
    frontier = [[]]
    runs = []
    transitions = 0
    exhausted = True
    while frontier:
        path = frontier.pop(0)
        if len(path) >= max_depth:
            continue
        base = run_scripted_case(size, idle, path, drain=False, want_options=True, max_attempts=max_attempts)
        for opt in base['options']:
            if transitions >= budget:
                exhausted = False
                frontier = []
                break
            npath = path + [[list(opt)]]
            r = run_scripted_case(size, idle, npath, max_attempts=max_attempts)
            r['size'] = size; r['idle'] = idle
            runs.append(r)
            transitions += 1
            key = r['settled'][-1][1]
            if key not in seen:
                seen[key] = npath
                frontier.append(npath)
    judge_scripted(ctx, runs, 'explored')
    return len(seen) + 1, transitions, exhausted


# ====================================================================== entry
def quiet_logs():
    import logging
    gevent.get_hub().exception_stream = None      # greenlets that die with an exception are expected here
    logging.disable(logging.CRITICAL)



def run(ctx):
    t0 = _time.time()
    quiet_logs()
    q = ctx.quick
    run_deque(ctx, 600 if q else 6000)
    scripted_stream(ctx, 500 if q else 10000, 14 if q else 18, 0.0)
    scripted_stream(ctx, 400 if q else 8000, 14 if q else 18, 0.35)
    smtp_stream(ctx, 300 if q else 5000, 10 if q else 14)
    pairs_stream(ctx)
    realserver_stream(ctx)
    closing_stream(ctx)
    real_closing_stream(ctx)
    ehlo_stream(ctx)
    count_stream(ctx)
    http_stream(ctx, 150 if q else 2500)
    tot_s = tot_t = 0
    allx = True
    bounds = []
    for size, idle, nat, depth, budget in ([(1, 5, 3, 8, 1200), (2, None, 3, 7, 1200), (3, 5, 2, 7, 1000), (None, 5, 2, 6, 800)] if q else
                                           [(1, 5, 4, 12, 12000), (1, None, 4, 12, 12000), (2, 5, 3, 10, 12000), (2, None, 4, 9, 12000), (3, 5, 3, 9, 12000), (None, 5, 3, 8, 12000)]):
        st, tr, ex = explore(ctx, size, idle, nat, depth, budget)
        tot_s += st; tot_t += tr; allx = allx and ex
        bounds.append('size=%s idle=%s attempts<=%d depth<=%d: %d states, %d transitions%s' % (size, idle, nat, depth, st, tr, '' if ex else ' (budget reached)'))
    ctx.extra['states'] = tot_s
    ctx.extra['transitions'] = tot_t
    ctx.extra['exhaustive'] = allx
    ctx.extra['exhaustive_bound'] = '; '.join(bounds)
    ctx.extra['rule'] = (
        'deque: random sequences of the 8 overridden BlockingDeque methods (non-trivial: contains a bulk/remove op and a pop). '
        'pool: schedules of harness actions on the real RelayPool - A attempt(), E client enters poll(), G client ends, D complete with result kind, '
        'R appendleft (server timeout), X let the finished client be removed, T advance the virtual clock (idle expiry) - generated from the '
        'actions valid in the real state, sizes 1..3/unbounded, idle none/finite; "compound" schedules issue two actions before the run queue drains; '
        'plus a breadth-first exploration of all action sequences within the stated bound. smtp: StaticSmtpRelay + SmtpRelayClient against a scripted '
        'server (per message: unsolicited 421, MAIL/RCPT/DATA/body reply ok|reject|lost, RSET survives or not, held replies/connects, PIPELINING on/off, '
        '8BITMIME on/off). http: HttpRelay + HttpRelayClient + the real http.client connection over a fake socket against a scripted server (per message ok | reject | refused | mute | hangs up | slow, released in time or not), fixed stall-then-healthy scenarios plus random schedules; every attempt must get the result of its own envelope and a healthy delivery must succeed. Every observed step of the real pool is replayed on the model (must be enabled; pool members, idle flags, queue, semaphore equal); '
        'gated schedules are also predicted by the model\'s FIFO run; each SMTP / HTTP connection\'s log and pool actions are compared with smtp_run / http_run. '
        'reuse streams: sequences A;B(;C) through one re-used connection, A over every failure kind, B also with the next hop hanging up / saying 421 at every stage, SMTP and LMTP on the scripted server and SMTP against the real slimta Server; judged model-free (result = result on a fresh connection; RSET between a failed transaction and the next MAIL; every reply inside a result was issued for that message) and, for the replies read per connection, against the last_error model. '
        'construction: ehlo_as None(getfqdn as a yielding stub)/str/callable/yielding callable x sizes 1..3 x bursts of overlapping attempts, with a greenlet-switch counter around the pool\'s check-then-add sections; counts: N simultaneous attempts up to 3000 on pools 1 and 2. '
        'non-trivial = at least two attempts and at least four kinds of action (pool) / a failed, reset or requeued transaction (smtp).')
    ctx.extra['trusted_base'] = [
        'gevent semantics assumed by the model: atomicity between blocking calls, Semaphore wakes waiters FIFO and only while its counter is positive, link callbacks after the greenlet ends',
        'the harness observes the real pool through tracing subclasses (BlockingDeque, AsyncResult, RelayPool._remove_client, client _run) and a virtual Timeout; fake SMTP server / HTTP stub written for this check',
    ]
    ctx.extra['assumptions'] = []


def replay(ctx, rep):
    """./check C19 --replay replays/C19/<n>.json : re-runs the case on the real code and prints
    what happened"""
    quiet_logs()
    case = rep.get('case', rep)
    kind = case.get('kind')
    if kind == 'scripted':
        r = run_scripted_case(case['size'], case['idle'], case['script'])
    elif kind == 'smtp':
        r = run_smtp_case(case['cfg'], case['script'])
        if case['cfg'].get('kinds'):
            cfg = case['cfg']
            seven = cfg['conn_scripts'][0]['eightbit'] == 0
            metamorphic(r, cfg['kinds'], lambda i, k: solo_outcome(k, cfg['conn_scripts'][0]['pipe'], cfg.get('lmtp', 0), seven, i)[0],
                        r['fails'], 'replay')
            print('messages: %r' % (cfg['kinds'],))
            for i in sorted(r['outcomes']):
                print('result of message %d: %r' % (i, canon_outcome(r['outcomes'][i])))
        for c, log in sorted(r['wirelog'].items()):
            print('wire of client %s: %r' % (c, log))
        for c, pl in sorted(r['polls'].items()):
            print('polls of client %s: %r' % (c, pl))
    elif kind == 'count':
        r = run_count_case(case['n'], case['size'])
        print('%d simultaneous attempts, pool size %r: %d answered, %d clients' % (case['n'], case['size'], r['answered'], r['nclients']))
        for key, what in r['fails']:
            print('FAIL %s: %s' % (key, what))
        return 1 if r['fails'] else 0
    elif kind == 'realserver':
        r = run_real_sequence(case['kinds'], case['pipe'])
        metamorphic(r, case['kinds'], lambda i, k: real_solo(k, case['pipe'], i)[0], r['fails'], 'real Server pipelining=%d' % case['pipe'])
        r['script'] = case['kinds']
        print('messages: %r' % (case['kinds'],))
        for i in sorted(r['outcomes']):
            print('result of message %d: %r' % (i, canon_outcome(r['outcomes'][i])))
        print('the server accepted: %r' % (r['accepted'],))
        for c, log in sorted(r['wirelog'].items()):
            print('wire of client %s: %r' % (c, log))
    elif kind == 'http':
        r = run_http_case(case['size'], case['idle'], case['flavours'], case['script'])
        for c, log in sorted(r['wirelog'].items()):
            print('connection log of client %s (0 request e, 1 connect, 2 response e, 3 close, 4 result e ok): %r' % (c, log))
        print('requests per client: %r' % (r['polls'],))
    elif kind == 'deque':
        d = BlockingDeque(case['init'])
        names = ['append', 'appendleft', 'clear', 'extend', 'extendleft', 'pop', 'popleft', 'remove']
        for o in case['ops']:
            if o[0] in (5, 6) and d.sema.counter == 0:
                print('%s() would block' % names[o[0]])
                continue
            try:
                got = getattr(d, names[o[0]])(*o[1:])
            except Exception as e:
                got = repr(e)
            print('%s%r -> %r; deque=%r counter=%d' % (names[o[0]], tuple(o[1:]), got, list(d), d.sema.counter))
        return 1 if d.sema.counter != len(d) else 0
    else:
        print('nothing to replay for %r' % (kind,))
        return 0
    print('script: %r' % (r['script'],))
    for i, (ev, cur, snap) in enumerate(r['raw']):
        print('%3d %-22r pool=%r idle=%r queue=%r sema=%d' % ((i, ev) + tuple(snap)))
    for key, what in r['fails']:
        print('FAIL %s: %s' % (key, what))
    return 1 if r['fails'] else 0
