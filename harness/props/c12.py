"""C12 - a queued message is attempted when due, never early, never forgotten."""
from vp import qharness

ASSUMPTIONS = [
    'store and relay pools unbounded (bounded pools: known finding D10)',
    'storage operations and relay attempts are the only yield points besides the scheduler wait (checked: every one of them is a gate)',
    'virtual clock (slimta.queue.time patched), Queue.wake replaced by an event with virtual timeouts and gevent set()/clear() semantics',
]

CFGS = [dict(max_msgs=2, flush=True, inf_backoff=True), dict(max_msgs=3, flush=False, inf_backoff=True), dict(max_msgs=2, flush=True, race_announce=True), dict(max_msgs=2, flush=False, wait_generator=True, foreign=True), dict(max_msgs=3, flush=True, relay_pool=1), dict(max_msgs=3, flush=False, relay_pool=2, foreign=True),
        dict(max_msgs=2, flush=True, backend='disk'), dict(max_msgs=2, flush=False, backend='cloud'),
        dict(max_msgs=2, flush=True), dict(max_msgs=3, flush=False), dict(max_msgs=2, flush=True, foreign=True),
        dict(max_msgs=1, flush=True)]


def run(ctx):
    ctx.extra['rule'] = ('random schedules over {enqueue, release any pending storage/relay/load/wait gate with a random result '
                         '(relay: ok/temp/perm/other/mapping/sequence; backoff: None/0/5/10; announcements of stored or foreign ids), '
                         'advance the virtual clock, flush}; each run is then drained; every run is replayed event by event on the Coq model '
                         'and the states compared at every quiescent point; non-trivial = at least two delivery attempts happened')
    for backend in ('dict', 'shelve', 'disk', 'cloud', 'redis'):
        qharness.scripted_restart(ctx, ('c12',), backend)
    qharness.explore(ctx, ('c12',), 600 if ctx.quick else 6000, 40, CFGS)
    qharness.bounded_pool_scenario(ctx)
    qharness.unbounded_relay_pool_scenario(ctx)
    qharness.bounded_store_pool_requeue_scenario(ctx)
    qharness.bounded_store_pool_announce_scenario(ctx)
    qharness.clock_step_back_scenario(ctx)
    qharness.bounded_store_pool_flush_scenario(ctx)


def replay(ctx, case):
    return qharness.replay_run(ctx, case)
