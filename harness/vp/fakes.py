"""In-memory stand-ins for sockets used by the correspondence runs."""


class ScriptSocket(object):
    """recv() returns the next scripted chunk (b'' when exhausted => EOF);
    sendall() appends to `sent`."""

    def __init__(self, chunks=(), peer=('192.0.2.1', 25)):
        self.chunks = list(chunks)
        self.sent = b''
        self.peer = peer
        self.closed = False
        self.recv_calls = 0

    def fileno(self):
        return -1

    def getpeername(self):
        return self.peer

    def getsockname(self):
        return ('192.0.2.2', 25)

    def recv(self, n=4096):
        self.recv_calls += 1
        if not self.chunks:
            return b''
        c = self.chunks.pop(0)
        if len(c) > n:
            self.chunks.insert(0, c[n:])
            c = c[:n]
        return c

    def send(self, data):
        self.sent += bytes(data)
        return len(data)

    def sendall(self, data):
        self.sent += bytes(data)

    def close(self):
        self.closed = True

    def unread(self):
        return b''.join(self.chunks)


def segmentations(data, rng, mode):
    """ways to cut `data` into recv() chunks"""
    n = len(data)
    if mode == 'whole':
        return [data] if data else []
    if mode == 'bytes':
        return [data[i:i + 1] for i in range(n)]
    if mode == 'lines':
        out = []; cur = b''
        for i in range(n):
            cur += data[i:i + 1]
            if data[i:i + 1] == b'\n':
                out.append(cur); cur = b''
        if cur:
            out.append(cur)
        return out
    if mode == 'random':
        cuts = sorted(set(rng.randrange(1, n) for _ in range(rng.randrange(1, 6)))) if n > 1 else []
        out = []; p = 0
        for c in cuts + [n]:
            if c > p:
                out.append(data[p:c]); p = c
        return out
    raise ValueError(mode)
