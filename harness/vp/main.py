"""./check <ID> [--tier quick|thorough] [--replay file]"""
import os, sys, json, time, importlib, traceback, argparse
from . import core


def write_replay(prop_id, n, obj):
    d = os.path.join(core.VERIF, 'replays', prop_id)
    os.makedirs(d, exist_ok=True)
    path = os.path.join(d, '%d.json' % n)
    with open(path, 'w') as f:
        json.dump(core.jsonable(obj), f, indent=1)
    return os.path.relpath(path, core.VERIF)


def write_evidence(ctx, cp, level_text, violations, xinfo, assumptions, broken=None):
    cov = dict(
        obligations=len(cp['theorems']) if cp else 0,
        discharged=(len(cp['theorems']) if cp and cp['compiled'] else 0),
        checker_cmd=cp['cmd'] if cp else 'cd /verif/coq && make',
        trusted_base=[
            'Coq 8.16.1 kernel (coqc full .vo build; vm_compute used for witnesses, finite sweeps and the cross-check; no native_compute)',
            'Print Assumptions for every theorem of prop/%s.v: %s' % (
                ctx.prop_id, ('%d x "Closed under the global context"' % cp['closed']) +
                ('; axioms: ' + ' | '.join(a.strip() for a in cp['axioms_blocks']) if cp['axioms_blocks'] else '')
                if cp else 'n/a'),
            'hand-written Gallina model (coq/model) tied to /repo by the correspondence run of this check (differential, not a proof)',
            'extraction: ExtrOcamlBasic only, no Extract Constant; ocaml/driver.ml; cross-checked against vm_compute on %s recorded calls this run (%s)' % xinfo,
            'harness: generators, canonicalisation, fakes, property oracle (harness/props/%s.py)' % ctx.prop_id.lower(),
        ] + list(ctx.extra.get('trusted_base', [])),
        theorems=cp['theorems'] if cp else [],
        evaluations=ctx.evaluations,
        distinct_nontrivial=len(ctx.nontrivial),
        rule=ctx.extra.get('rule', ''),
        samples=core.jsonable(ctx.samples) or ['(no case ran)'],
        exhaustive=bool(ctx.extra.get('exhaustive', False)),
        distribution=ctx.dist,
        correspondence_mismatches=len(ctx.mismatches),
        oracle_failures=len(ctx.failures),
        known_findings_printed=ctx.extra.get('known_printed', []),
        notes=ctx.notes,
    )
    for k in ('states', 'transitions', 'traces_validated_against_impl', 'exhaustive_bound', 'model_calls'):
        if k in ctx.extra:
            cov[k] = ctx.extra[k]
    if broken:
        cov['check_broken'] = broken
    ev = dict(property_id=ctx.prop_id, tier=ctx.tier, seed=ctx.seed, level='proof',
              coverage=cov, assumptions=assumptions + list(ctx.extra.get('assumptions', [])),
              wall_s=round(time.time() - ctx.t0, 2), violations=violations)
    # /verif/evidence is only ever written by a run against /repo itself in its committed state:
    # development runs against a scratch tree (VERIF_REPO) and the seeded-change sweep (which
    # patches /repo temporarily) write their evidence elsewhere
    evdir = os.environ.get('VERIF_EVIDENCE_DIR') or (
        '/tmp/verif-evidence-scratch' if os.environ.get('VERIF_REPO') else os.path.join(core.VERIF, 'evidence'))
    os.makedirs(evdir, exist_ok=True)
    with open(os.path.join(evdir, ctx.prop_id + '.json'), 'w') as f:
        json.dump(ev, f, indent=1, sort_keys=True)


def main():
    ap = argparse.ArgumentParser()
    ap.add_argument('prop')
    ap.add_argument('--tier', default=os.environ.get('VERIF_TIER') or 'quick')
    ap.add_argument('--replay')
    a = ap.parse_args()
    prop_id = a.prop.upper()
    tier = a.tier if a.tier in ('quick', 'thorough') else 'quick'
    try:
        seed = int(os.environ.get('VERIF_SEED', '0') or 0)
    except ValueError:
        seed = 0
    ctx = core.Ctx(prop_id, tier, seed)
    mod = importlib.import_module('props.' + prop_id.lower())

    if a.replay:
        case = json.load(open(a.replay))
        ctx.model = core.Model() if os.access(core.DRIVER, os.X_OK) else None
        if hasattr(mod, 'replay'):
            return mod.replay(ctx, case)
        print(json.dumps(case, indent=1))
        return 0

    rc, msg = core.build(prop_id)
    gen_broken = None
    if rc != 0:
        # a build failure in a file that depends on coq/gen (regenerated from /repo) is an
        # obligation that no longer checks; anything else is a broken check.
        if hasattr(mod, 'build_failure'):
            gen_broken = mod.build_failure(ctx, rc, msg)
        if not gen_broken:
            print('CHECK-BROKEN property=%s build failed: %s' % (prop_id, msg.strip()[:500]))
            write_evidence(ctx, None, '', 0, (0, 'not run'), [], broken='build: ' + msg[:300])
            return 2
    forb = core.scan_forbidden()
    if forb and os.environ.get('VERIF_DEV') == '1':
        print('DEV: forbidden constructs present (ignored in development mode): %s' % forb[:5])
        forb = []
    if forb:
        print('CHECK-BROKEN property=%s forbidden construct in development: %s' % (prop_id, forb[:5]))
        return 2
    cp = core.coq_prop(prop_id)
    if not cp['compiled'] and not gen_broken:
        if hasattr(mod, 'build_failure'):
            gen_broken = mod.build_failure(ctx, 1, cp['output'])
        if not gen_broken:
            print('CHECK-BROKEN property=%s prop/%s.v does not compile: %s' % (prop_id, prop_id, cp['output'][-600:]))
            write_evidence(ctx, cp, '', 0, (0, 'not run'), [], broken='prop file')
            return 2
    try:
        ctx.model = core.Model()
        mod.run(ctx)
    except Exception as exc:
        tb = traceback.format_exc()
        # Where was it raised?  An exception that comes out of the library under test (innermost
        # frame inside <repo>/slimta) on a path where neither the model nor the harness expects one
        # means the correspondence run could not be completed on the current source: that is a
        # broken correspondence (reported below, with the traceback as its description), not a
        # fault of the machinery.  Anything raised by the harness itself stays CHECK-BROKEN.
        frames = traceback.extract_tb(sys.exc_info()[2])
        repo_root = os.path.realpath(os.environ.get('VERIF_REPO', '/repo'))
        inner = os.path.realpath(frames[-1].filename) if frames else ''
        if inner.startswith(os.path.join(repo_root, 'slimta') + os.sep):
            ctx.mismatch('implementation-raised-unexpectedly', dict(where='%s:%s in %s' % (inner[len(repo_root) + 1:], frames[-1].lineno, frames[-1].name),
                                                                    traceback=tb[-2500:]),
                         '%s: %s' % (type(exc).__name__, exc), 'no exception on this path (model and harness); the run was cut short here')
            ctx.extra['run_cut_short_by_implementation_exception'] = True
        else:
            print('CHECK-BROKEN property=%s harness error:\n%s' % (prop_id, tb[-3000:]))
            write_evidence(ctx, cp, '', 0, (0, 'not run'), [], broken='harness: ' + tb[-500:])
            return 2

    # cross-check of extraction against vm_compute
    nx, badidx, xout = core.xcheck(prop_id, ctx.model, limit=(120 if ctx.quick else 400))
    if badidx is None or badidx:
        print('CHECK-BROKEN property=%s extraction cross-check failed: %s' % (prop_id, (badidx, xout[-500:])))
        write_evidence(ctx, cp, '', 0, (nx, 'FAILED'), [], broken='xcheck')
        return 2
    ctx.extra['model_calls'] = ctx.model.calls

    # ---- verdict
    known = {f['key']: f for f in ctx.known if f.get('status') == 'known'}
    printed = []
    unknown_fail = []
    for f in ctx.failures:
        if f['key'] in known:
            if f['key'] not in printed:
                printed.append(f['key'])
        else:
            unknown_fail.append(f)
    ctx.extra['known_printed'] = printed
    for k in printed:
        print('KNOWN-FINDING: property=%s %s [%s]' % (prop_id, known[k].get('what', ''), k))
    viol = 0
    n = 0
    seen_keys = set()
    for f in unknown_fail:
        if f['key'] in seen_keys:
            continue
        seen_keys.add(f['key'])
        n += 1
        path = write_replay(prop_id, n, dict(property=prop_id, kind='oracle', key=f['key'], case=f['case'], what=f['what']))
        print('VIOLATION property=%s replay=%s' % (prop_id, path))
        viol += 1
    if not unknown_fail and (ctx.mismatches or gen_broken):
        # correspondence / obligation broken but the search found no failing input
        n += 1
        what = []
        if gen_broken:
            what.append('proof obligation no longer checks: %s' % gen_broken)
        if ctx.mismatches:
            what.append('correspondence model<->implementation disagrees (%d cases), first: %s' % (
                len(ctx.mismatches), core.jsonable(ctx.mismatches[0])))
        path = write_replay(prop_id, n, dict(property=prop_id, kind='no-failing-input-found',
                                             theorems=cp['theorems'], what=what,
                                             mismatches=ctx.mismatches[:10]))
        print('VIOLATION property=%s replay=%s no-failing-input-found' % (prop_id, path))
        viol += 1
    assumptions = getattr(mod, 'ASSUMPTIONS', [])
    write_evidence(ctx, cp, '', viol, (nx, 'all equal'), list(assumptions))
    print('%s %s: theorems=%d compiled=%s evaluations=%d distinct_nontrivial=%d mismatches=%d oracle_failures=%d known=%s wall=%.1fs' % (
        prop_id, tier, len(cp['theorems']), cp['compiled'], ctx.evaluations, len(ctx.nontrivial),
        len(ctx.mismatches), len(ctx.failures), printed, time.time() - ctx.t0))
    return 1 if viol else 0


if __name__ == '__main__':
    sys.exit(main())
