"""Substrate fakes and steering for the queue-storage backends (C15, C04; the
queue properties reuse them).

  FakeRedis          the redis-py calls RedisStorage makes, answers as bytes
  FakeObjectStore    the object-store interface CloudStorage expects, with the
                     metadata conventions of slimta.cloudstorage.aws
  FakeMsgQueue       message queue with scripted queue_message failures
  Choices / ChoiceHub  environment choices of an operation (uuid candidates,
                     mkstemp names) looked up by the running greenlet
  DiskHarness        patches the slimta.diskstorage namespace (mkstemp,
                     aio_read, aio_write, os, uuid, optionally pickle): logs
                     every file-system effect, can raise at the k-th effect,
                     can gate every effect on a harness-owned event
  Gates / run_threads  deterministic interleaving of greenlets by a schedule

Nothing here touches /repo: all patches are module-namespace assignments made
from outside and undone on exit."""
import os, pickle, re, shutil, tempfile
import gevent
from gevent.event import AsyncResult

from slimta.envelope import Envelope


# ------------------------------------------------------------------ envelopes
def mk_envelope(sender, rcpts, content):
    env = Envelope(sender, list(rcpts))
    env.parse(content)
    return env


def env_content(env):
    h, m = env.flatten()
    return h + m


def env_obs(env):
    """what the properties compare of an envelope"""
    return (env.sender, tuple(env.recipients), env_content(env))


# ------------------------------------------------------------ number codec
# Same format as coq/model/Disk.v nc_*: decimal numerals each followed by ';'.
def enc_nums(nums):
    return b''.join(b'%d;' % n for n in nums)


def dec_nums(b):
    if not b or b[-1:] != b';':
        raise pickle.UnpicklingError('nc: truncated')
    out = []
    for tok in b[:-1].split(b';'):
        if not tok or not tok.isdigit():
            raise pickle.UnpicklingError('nc: bad numeral')
        out.append(int(tok))
    return out


def nc_dumps(obj, protocol=None):
    if isinstance(obj, dict):
        nums = [1, int(obj['timestamp']), int(obj['attempts'])]
        if 'delivered_indexes' in obj:
            nums += [1] + [int(i) for i in obj['delivered_indexes']]
        else:
            nums += [0]
        return enc_nums(nums)
    if isinstance(obj, Envelope):
        s = [ord(c) for c in obj.sender]
        nums = [2, len(s)] + s + [len(obj.recipients)]
        for r in obj.recipients:
            nums += [len(r)] + [ord(c) for c in r]
        nums += list(env_content(obj))
        return enc_nums(nums)
    raise TypeError('nc_dumps: %r' % type(obj))


def nc_loads(b):
    nums = dec_nums(bytes(b))
    if nums[:1] == [1]:
        if len(nums) == 4 and nums[3] == 0:
            return {'timestamp': nums[1], 'attempts': nums[2]}
        if len(nums) >= 4 and nums[3] == 1:
            return {'timestamp': nums[1], 'attempts': nums[2], 'delivered_indexes': nums[4:]}
        raise pickle.UnpicklingError('nc: bad meta')
    if nums[:1] == [2]:
        p = 1
        n = nums[p]; p += 1
        sender = ''.join(chr(c) for c in nums[p:p + n]); p += n
        k = nums[p]; p += 1
        rcpts = []
        for _ in range(k):
            n = nums[p]; p += 1
            if p + n > len(nums):
                raise pickle.UnpicklingError('nc: bad envelope')
            rcpts.append(''.join(chr(c) for c in nums[p:p + n])); p += n
        return mk_envelope(sender, rcpts, bytes(nums[p:]))
    raise pickle.UnpicklingError('nc: bad tag')


class NumCodec(object):
    """stands in for the `pickle` module inside slimta.diskstorage"""
    HIGHEST_PROTOCOL = pickle.HIGHEST_PROTOCOL
    UnpicklingError = pickle.UnpicklingError
    dumps = staticmethod(nc_dumps)
    loads = staticmethod(nc_loads)


# ---------------------------------------------------------------- choices
class OutOfIds(Exception):
    """the scripted uuid candidates of an operation are used up: the real
    allocation loop would go on drawing (model: RNoId)"""


class Choices(object):
    def __init__(self, cands=(), tmps=()):
        self.cands = [str(c) for c in cands]
        self.tmps = list(tmps)


class ChoiceHub(object):
    """current Choices per greenlet (or one global one)"""

    def __init__(self):
        self.by_greenlet = {}
        self.default = Choices()

    def set(self, ch):
        self.by_greenlet[gevent.getcurrent()] = ch

    def cur(self):
        return self.by_greenlet.get(gevent.getcurrent(), self.default)

    # stands in for the `uuid` module
    def uuid4(self):
        ch = self.cur()
        if not ch.cands:
            raise OutOfIds()
        hub = self

        class U(object):
            hex = ch.cands.pop(0)

            def __str__(s):
                return s.hex
        return U()

    def next_tmp(self):
        ch = self.cur()
        if not ch.tmps:
            raise OutOfIds('tmp')
        return ch.tmps.pop(0)


# ------------------------------------------------- copy-on-access mappings
from collections.abc import MutableMapping


class PickleMap(MutableMapping):
    """Minimal mapping with shelve's access semantics (no writeback): values are
    pickled on assignment and unpickled - a fresh copy - on every read."""

    def __init__(self):
        self.raw = {}

    def __getitem__(self, k):
        return pickle.loads(self.raw[k])

    def __setitem__(self, k, v):
        self.raw[k] = pickle.dumps(v, pickle.HIGHEST_PROTOCOL)

    def __delitem__(self, k):
        del self.raw[k]

    def __iter__(self):
        return iter(list(self.raw))

    def __len__(self):
        return len(self.raw)

    def __contains__(self, k):
        return k in self.raw


def open_fds():
    """number of open file descriptors of this process"""
    return len(os.listdir('/proc/self/fd'))


class FdGuard(object):
    """with FdGuard('stream name'): ...  raises if the block leaks descriptors"""
    peak = 0

    def __init__(self, what, slack=16):
        self.what = what
        self.slack = slack

    @staticmethod
    def sample():
        FdGuard.peak = max(FdGuard.peak, open_fds())

    def __enter__(self):
        self.before = open_fds()
        FdGuard.peak = max(FdGuard.peak, self.before)
        return self

    def __exit__(self, et, ev, tb):
        after = open_fds()
        FdGuard.peak = max(FdGuard.peak, after)
        if et is None and after > self.before + self.slack:
            raise RuntimeError('file descriptor leak in %s: %d open before, %d after' % (self.what, self.before, after))
        return False


# ------------------------------------------------------------------- gates
class Gates(object):
    """Every substrate command of a gated greenlet blocks here until the
    scheduler releases it.  pending[g] = (AsyncResult, description)."""

    def __init__(self):
        self.pending = {}
        self.enabled = True
        self.overlap_violations = 0

    def __call__(self, desc):
        if not self.enabled:
            return
        g = gevent.getcurrent()
        ar = AsyncResult()
        self.pending[g] = (ar, desc)
        ar.get()

    def release(self, g):
        ar, desc = self.pending.pop(g)
        ar.set(None)
        return desc


def settle(greenlets, gates, who):
    """let greenlet `who` run until it blocks on its next gate or ends"""
    for _ in range(10000):
        if who.dead or who in gates.pending:
            return
        gevent.sleep(0)
    raise RuntimeError('greenlet did not reach a gate')


SILENT = ('readdone',)       # gate points that are yield points only: no command of the model


def run_threads(bodies, schedule, gates, progress=None):
    """bodies: callables (one per thread), each issuing gated commands.
    schedule: list of thread indexes.  Returns (greenlets, executed) where
    executed is the list of (thread, description) of the commands released, in
    order.  Greenlets still blocked at the end are left blocked (the caller
    kills them: a crash) unless the schedule ran them to completion."""
    gs = [gevent.spawn(b) for b in bodies]
    for g in gs:
        settle(gs, gates, g)
    executed = []

    def step(i):
        g = gs[i]
        if g.dead or g not in gates.pending:
            return False
        desc = gates.release(g)
        if desc[0] not in SILENT:
            executed.append((i, desc))
        settle(gs, gates, g)
        return True
    for item in schedule:
        if isinstance(item, (tuple, list)):
            # ('ops', i, k): thread i runs until it has completed k operations (progress(i) >= k)
            _, i, k = item
            while i < len(gs) and progress is not None and progress(i) < k and step(i):
                pass
            continue
        if item < len(gs):
            step(item)
    return gs, executed


def kill_all(gs):
    for g in gs:
        if not g.dead:
            g.kill(block=True)


# ------------------------------------------------------------------- redis
class RedisWrongType(Exception):
    pass


try:
    from redis.exceptions import ResponseError as _ResponseError
except Exception:                                    # pragma: no cover
    _ResponseError = RedisWrongType


def _rb(v):
    """redis-py value encoding"""
    if isinstance(v, bytes):
        return v
    if isinstance(v, bool):
        raise TypeError('redis: bool')
    if isinstance(v, (int, float)):
        return repr(v).encode()
    if isinstance(v, str):
        return v.encode()
    raise TypeError('redis: cannot encode %r' % type(v))


def redis_glob(pattern):
    """KEYS takes a glob-style pattern (redis stringmatchlen): * ? [abc] [^a] [a-z] and \\x"""
    out = b''
    i, n = 0, len(pattern)
    while i < n:
        c = pattern[i:i + 1]
        if c == b'*':
            out += b'.*'
        elif c == b'?':
            out += b'.'
        elif c == b'[':
            j = i + 1
            neg = pattern[j:j + 1] == b'^'
            if neg:
                j += 1
            cls = b''
            while j < n and pattern[j:j + 1] != b']':
                if pattern[j:j + 1] == b'\\' and j + 1 < n:
                    j += 1
                    cls += re.escape(pattern[j:j + 1])
                elif pattern[j + 1:j + 2] == b'-' and j + 2 < n and pattern[j + 2:j + 3] != b']':
                    lo, hi = pattern[j:j + 1], pattern[j + 2:j + 3]
                    if lo > hi:
                        lo, hi = hi, lo
                    cls += re.escape(lo) + b'-' + re.escape(hi)
                    j += 2
                else:
                    cls += re.escape(pattern[j:j + 1])
                j += 1
            out += (b'[^' if neg else b'[') + cls + b']' if cls else (b'(?s:.)' if neg else b'(?!)')
            i = j
        elif c == b'\\' and i + 1 < n:
            i += 1
            out += re.escape(pattern[i:i + 1])
        else:
            out += re.escape(c)
        i += 1
    return re.compile(b'(?s)' + out + b'\\Z')


class FakeRedis(object):
    """In-memory stand-in for redis.StrictRedis (decode_responses=False): keys
    and values come back as bytes.  Only what RedisStorage calls."""

    def __init__(self, gate=None):
        self.data = {}      # bytes key -> dict(bytes field -> bytes) | list of bytes
        self.gate = gate or (lambda desc: None)
        self.log = []

    def _cmd(self, *desc):
        self.gate(desc)
        self.log.append(desc)

    def _hash(self, key, create=False):
        key = _rb(key)
        v = self.data.get(key)
        if v is None:
            if not create:
                return {}
            v = self.data[key] = {}
        if not isinstance(v, dict):
            raise _ResponseError('WRONGTYPE Operation against a key holding the wrong kind of value')
        return v

    def hsetnx(self, key, field, value):
        self._cmd('hsetnx', _rb(key), field)
        return self._hsetnx(key, field, value)

    def _hsetnx(self, key, field, value):
        h = self._hash(key, True)
        f = _rb(field)
        if f in h:
            return 0
        h[f] = _rb(value)
        return 1

    def hset(self, key, field, value):
        self._cmd('hset', _rb(key), field)
        return self._hset(key, field, value)

    def _hset(self, key, field, value):
        h = self._hash(key, True)
        f = _rb(field)
        new = 0 if f in h else 1
        h[f] = _rb(value)
        return new

    def hmset(self, key, mapping):
        self._cmd('hmset', _rb(key))
        return self._hmset(key, mapping)

    def _hmset(self, key, mapping):
        for f, v in mapping.items():
            self._hset(key, f, v)
        return True

    def hget(self, key, field):
        self._cmd('hget', _rb(key), field)
        return self._hash(key).get(_rb(field))

    def hmget(self, key, *fields):
        self._cmd('hmget', _rb(key))
        if len(fields) == 1 and isinstance(fields[0], (list, tuple)):
            fields = fields[0]
        h = self._hash(key)
        return [h.get(_rb(f)) for f in fields]

    def hincrby(self, key, field, amount=1):
        self._cmd('hincrby', _rb(key), field)
        h = self._hash(key, True)
        f = _rb(field)
        n = int(h.get(f, b'0')) + amount
        h[f] = _rb(n)
        return n

    def delete(self, *keys):
        self._cmd('delete', tuple(_rb(k) for k in keys))
        n = 0
        for k in keys:
            if self.data.pop(_rb(k), None) is not None:
                n += 1
        return n

    def keys(self, pattern='*'):
        self._cmd('keys', pattern)
        rx = redis_glob(_rb(pattern))
        # KEYS order is unspecified: keys ending in digits in ascending numeric order, the others last
        def order(k):
            m = re.search(rb'(\d+)$', k)
            return (0, int(m.group(1)), k) if m else (1, 0, k)
        return sorted((k for k in self.data.keys() if rx.match(k)), key=order)

    def rpush(self, key, *values):
        self._cmd('rpush', _rb(key))
        return self._rpush(key, *values)

    def _rpush(self, key, *values):
        key = _rb(key)
        l = self.data.setdefault(key, [])
        if not isinstance(l, list):
            raise _ResponseError('WRONGTYPE Operation against a key holding the wrong kind of value')
        l.extend(_rb(v) for v in values)
        return len(l)

    def blpop(self, keys, timeout=0):
        self._cmd('blpop')
        if isinstance(keys, (bytes, str)):
            keys = [keys]
        for k in keys:
            k = _rb(k)
            l = self.data.get(k)
            if l:
                v = l.pop(0)
                if not l:
                    del self.data[k]
                return (k, v)
        return None          # (a real BLPOP with timeout 0 would block)

    def llen(self, key):
        l = self.data.get(_rb(key))
        return len(l) if isinstance(l, list) else 0

    def pipeline(self):
        return _FakePipe(self)


class _FakePipe(object):
    def __init__(self, r):
        self.r = r
        self.cmds = []

    def hmset(self, key, mapping):
        self.cmds.append(('_hmset', (key, dict(mapping))))
        return self

    def rpush(self, key, *values):
        self.cmds.append(('_rpush', (key,) + values))
        return self

    def hset(self, key, field, value):
        self.cmds.append(('_hset', (key, field, value)))
        return self

    def execute(self):
        self.r._cmd('pipeline', tuple(c[0] for c in self.cmds))
        out = [getattr(self.r, name)(*args) for name, args in self.cmds]
        self.cmds = []
        return out


# ------------------------------------------------------------------- cloud
class FakeObjectStore(object):
    """The object-store interface of CloudStorage.  aws_like=True keeps the
    metadata conventions of slimta.cloudstorage.aws.SimpleStorageService:
    `attempts` and `delivered_indexes` are absent from the metadata dict until
    they have been set (their raw value '' is dropped); a missing object raises
    KeyError.  Envelopes are pickled like the real store does."""

    def __init__(self, hub, gate=None, aws_like=True):
        self.objs = {}       # id -> [pickled envelope, meta dict]
        self.hub = hub
        self.gate = gate or (lambda desc: None)
        self.aws_like = aws_like
        self.log = []

    def _cmd(self, *desc):
        self.gate(desc)
        self.log.append(desc)

    def _get(self, id):
        if id not in self.objs:
            raise KeyError(id)
        return self.objs[id]

    def _meta(self, m):
        out = {'timestamp': m['timestamp']}
        for k in ('attempts', 'delivered_indexes'):
            if k in m:
                out[k] = m[k] if not isinstance(m[k], list) else list(m[k])
            elif not self.aws_like:
                out[k] = 0 if k == 'attempts' else []
        return out

    def write_message(self, envelope, timestamp):
        self._cmd('write_message')
        raw = pickle.dumps(envelope, pickle.HIGHEST_PROTOCOL)
        while True:
            id = self.hub.uuid4().hex
            if id not in self.objs:
                self.objs[id] = [raw, {'timestamp': timestamp}]
                return id

    def set_message_meta(self, id, timestamp=None, attempts=None, delivered_indexes=None):
        self._cmd('set_message_meta', id)
        o = self._get(id)
        if timestamp is not None:
            o[1]['timestamp'] = timestamp
        if attempts is not None:
            o[1]['attempts'] = attempts
        if delivered_indexes is not None:
            import json
            o[1]['delivered_indexes'] = json.loads(json.dumps(delivered_indexes))

    def get_message_meta(self, id):
        self._cmd('get_message_meta', id)
        return self._meta(self._get(id)[1])

    def get_message(self, id):
        self._cmd('get_message', id)
        o = self._get(id)
        return pickle.loads(o[0]), self._meta(o[1])

    def delete_message(self, id):
        self._cmd('delete_message', id)
        self._get(id)
        del self.objs[id]

    def list_messages(self):
        self._cmd('list_messages')
        return [(o[1]['timestamp'], id) for id, o in self.objs.items()]


class FakeMsgQueue(object):
    def __init__(self, fails=(), gate=None):
        self.fails = list(fails)
        self.queued = []
        self.gate = gate or (lambda desc: None)

    def queue_message(self, storage_id, timestamp):
        self.gate(('queue_message', storage_id))
        f = self.fails.pop(0) if self.fails else False
        if f:
            raise RuntimeError('scripted queue_message failure')
        self.queued.append((timestamp, storage_id))

    def poll(self):
        q, self.queued = self.queued, []
        for i, (ts, sid) in enumerate(q):
            yield (ts, sid, i)

    def delete(self, message_id):
        pass

    def sleep(self):
        pass


# -------------------------------------------------------------------- disk
class Crash(BaseException):
    """process death injected at an effect"""


class _Enospc(Exception):
    """private: tells the stubbed aio_write to report ENOSPC through its callback"""


class _OsPath(object):
    def __init__(self, h):
        self.h = h

    def __getattr__(self, name):
        return getattr(os.path, name)

    def lexists(self, path):
        self.h.effect(('exists', self.h.canon_path(path)))
        return os.path.lexists(path)


class _OsProxy(object):
    """stands in for the `os` module inside slimta.diskstorage"""

    def __init__(self, h):
        self.h = h
        self.path = _OsPath(h)

    def __getattr__(self, name):
        return getattr(os, name)

    def rename(self, src, dst):
        self.h.effect(('rename', self.h.canon_path(src)[1], self.h.canon_path(dst)))
        return os.rename(src, dst)

    def remove(self, path):
        self.h.effect(('unlink', self.h.canon_path(path)))
        return os.remove(path)

    def open(self, path, flags, *a):
        self.h.effect(('read', self.h.canon_path(path)))
        fd = os.open(path, flags, *a)
        self.h.fds.add(fd)
        return fd

    def listdir(self, path):
        self.h.effect(('listdir',))
        # os.listdir order is unspecified: taken in ascending id order (as the model does)
        def key(fn):
            stem = fn.split('.')[0]
            return (0, int(stem)) if stem.isdigit() else (1, 0)
        return sorted(os.listdir(path), key=key)

    def close(self, fd):
        # The descriptor is closed for real whatever happens at the effect hook:
        # a simulated kill at this point (Crash, GreenletExit at the gate) means
        # the code's close never "happened", but the harness must not keep the fd.
        t = self.h.fd_tmp.get(fd)
        try:
            if t is not None:
                self.h.effect(('close', t))
        finally:
            self.h.fd_tmp.pop(fd, None)
            self.h.fds.discard(fd)
            os.close(fd)


class DiskHarness(object):
    """Temp directories + patched slimta.diskstorage namespace.

    effect(desc) is called BEFORE each file-system command is carried out:
      ('exists', path) ('mktemp', t) ('write', t, off, bytes) ('rename', t, path)
      ('unlink', path) ('read', path) ('listdir',) ('close', t)  [os.close of a temp file's descriptor]
    with path = (0, id) for <id>.env, (1, id) for <id>.meta, (2, t) for a temp.
    It (1) waits on the gate if one is installed, (2) raises Crash if this is
    the crash_at-th effect (0-based), (3) logs."""

    def __init__(self, hub, codec=True, chunk=None, gate=None):
        self.hub = hub
        self.codec = codec
        self.chunk = chunk
        self.gate = gate
        self.log = []
        self.crash_at = None
        self.abort_at = None     # abort with unwinding: one exception at this effect, cleanup effects then run for real
        self.abort_mode = 'exit' # 'exit': GreenletExit; 'enospc': the aio_write callback reports ENOSPC
        self.aborted = False
        self.quiet = False       # recovery reads by the harness: no log, no gate, no crash
        self.fd_tmp = {}
        self.fds = set()         # every descriptor handed to the code under test and not yet closed
        self.gate_reads = False  # also gate the completion of every aio_read (silent yield point)
        self.write_rule = None   # (m, r, em, er): short writes / write errors of the stubbed aio_write
        self.write_faults = []
        self.on_effect = None

    # -- life cycle
    def __enter__(self):
        import slimta.diskstorage as ds
        self.ds = ds
        self.root = tempfile.mkdtemp(prefix='vp-disk-', dir='/tmp')
        self.env_dir = os.path.join(self.root, 'env')
        self.meta_dir = os.path.join(self.root, 'meta')
        self.tmp_dir = os.path.join(self.root, 'tmp')
        for d in (self.env_dir, self.meta_dir, self.tmp_dir):
            os.mkdir(d)
        # a primitive the module no longer imports is recorded as absent (and removed again on exit);
        # the effect log then differs from the model's, which is reported as a correspondence break
        _absent = object()
        self._absent = _absent
        self.saved = {k: getattr(ds, k, _absent) for k in ('mkstemp', 'aio_read', 'aio_write', 'os', 'uuid', 'pickle')}
        self.saved_chunk = ds.AioFile.chunk_size
        ds.mkstemp = self._mkstemp
        ds.aio_read = self._aio_read
        ds.aio_write = self._aio_write
        ds.os = _OsProxy(self)
        ds.uuid = self.hub
        if self.codec:
            ds.pickle = NumCodec
        if self.chunk:
            ds.AioFile.chunk_size = self.chunk
        return self

    def __exit__(self, *exc):
        ds = self.ds
        for k, v in self.saved.items():
            if v is self._absent:
                if hasattr(ds, k):
                    delattr(ds, k)
            else:
                setattr(ds, k, v)
        ds.AioFile.chunk_size = self.saved_chunk
        self.close_leaked()
        shutil.rmtree(self.root, ignore_errors=True)
        return False

    def close_leaked(self):
        """descriptors handed out by mkstemp / os.open that the code under test never
        closed (an operation killed before its finally ran, or a tree that forgot
        the close): closed here, after judging.  Returns how many there were."""
        n = 0
        for fd in list(self.fds):
            try:
                os.close(fd)
                n += 1
            except OSError:
                pass
        self.fds.clear()
        self.fd_tmp.clear()
        return n

    def storage(self):
        return self.ds.DiskStorage(self.env_dir, self.meta_dir, self.tmp_dir)

    def wipe(self):
        for d in (self.env_dir, self.meta_dir, self.tmp_dir):
            for f in os.listdir(d):
                os.remove(os.path.join(d, f))
        self.log = []
        self.close_leaked()

    # -- paths
    def canon_path(self, path):
        d, f = os.path.split(path)
        if d == self.env_dir and f.endswith('.env'):
            return (0, int(f[:-4]))
        if d == self.meta_dir and f.endswith('.meta'):
            return (1, int(f[:-5]))
        if d == self.tmp_dir and f.startswith('t'):
            return (2, int(f[1:]))
        raise ValueError('unexpected path %r' % path)

    def real_path(self, p):
        kind, n = p
        if kind == 0:
            return os.path.join(self.env_dir, '%d.env' % n)
        if kind == 1:
            return os.path.join(self.meta_dir, '%d.meta' % n)
        return os.path.join(self.tmp_dir, 't%d' % n)

    def snapshot(self):
        """{path: bytes} of the three directories"""
        out = {}
        for kind, d in ((0, self.env_dir), (1, self.meta_dir), (2, self.tmp_dir)):
            for f in os.listdir(d):
                p = self.canon_path(os.path.join(d, f))
                with open(os.path.join(d, f), 'rb') as fh:
                    out[p] = fh.read()
        return out

    def install(self, files):
        for p, data in files.items():
            with open(self.real_path(p), 'wb') as fh:
                fh.write(data)

    # -- effects
    def effect(self, desc):
        if self.quiet:
            return
        if self.gate is not None:
            self.gate(desc)
        if self.crash_at is not None and len(self.log) == self.crash_at:
            raise Crash()
        if self.abort_at is not None and not self.aborted and len(self.log) == self.abort_at:
            self.aborted = True
            if self.abort_mode == 'enospc' and desc[0] == 'write':
                raise _Enospc()
            raise gevent.GreenletExit()
        self.log.append(desc)
        if self.on_effect:
            self.on_effect(desc)

    def _mkstemp(self, dir=None, **kw):
        assert dir == self.tmp_dir, dir
        t = self.hub.next_tmp()
        self.effect(('mktemp', t))
        path = os.path.join(self.tmp_dir, 't%d' % t)
        fd = os.open(path, os.O_RDWR | os.O_CREAT | os.O_EXCL, 0o600)
        self.fd_tmp[fd] = t
        self.fds.add(fd)
        return fd, path

    def _aio_write(self, fd, piece, offset, callback):
        data = bytes(piece)
        if self.write_rule is not None and data and not self.quiet:
            # what this asynchronous write does (same rule as E_Disk.rule_fault): an error,
            # a short write of (n+1)//2 bytes, or everything
            m, r, em, er = self.write_rule
            key = self.fd_tmp.get(fd, 0) + offset
            if em and key % em == er:
                import errno
                self.write_faults.append(('error', self.fd_tmp.get(fd, -1), offset))
                callback(-1, errno.EFBIG if key % 2 else errno.ENOSPC)
                return
            if m and key % m == r and (len(data) + 1) // 2 < len(data):
                self.write_faults.append(('short', self.fd_tmp.get(fd, -1), offset, (len(data) + 1) // 2, len(data)))
                data = data[:(len(data) + 1) // 2]
        try:
            self.effect(('write', self.fd_tmp.get(fd, -1), offset, data))
        except _Enospc:
            import errno
            callback(-1, errno.ENOSPC)
            return
        n = os.pwrite(fd, data, offset) if data else 0
        callback(n, 0)

    def _aio_read(self, fd, offset, size, callback):
        buf = os.pread(fd, size, offset)
        # The completion of an asynchronous read is a yield point of its own: with
        # gate_reads the result is handed to the code only when the scheduler says so
        # (no file-system effect, not part of the effect log).
        if self.gate is not None and self.gate_reads and not self.quiet:
            self.gate(('readdone', fd))
        callback(buf, len(buf), 0)


# --------------------------------------------------------- RESP fake server
class RespServer(object):
    """An in-process redis SERVER for the real redis-py client: a gevent
    StreamServer on a loopback socket speaking RESP2 for exactly the commands
    RedisStorage issues, backed by a FakeRedis (so the state can be inspected
    and half-written entries injected).  `latency` (seconds, a few ms at most)
    is waited cooperatively before every command is carried out, so that the
    commands of many greenlets are genuinely in flight at once.  Unknown
    commands (CLIENT SETINFO, HELLO ...) get -ERR like an old server."""

    def __init__(self, fake=None, latency=0.0):
        from gevent.server import StreamServer
        self.fake = fake or FakeRedis()
        self.latency = latency
        self.in_flight = 0
        self.max_in_flight = 0
        self.commands = 0
        self.handlers = 0
        self.server = StreamServer(('127.0.0.1', 0), self._handle)
        self.server.start()
        self.port = self.server.server_port

    def stop(self):
        self.quiesce()
        self.server.stop(timeout=0)
        self.server.close()

    def reset(self, fake, latency=0.0):
        """a fresh data set behind the same listening socket"""
        self.fake = fake
        self.latency = latency
        self.in_flight = self.max_in_flight = self.commands = 0

    def quiesce(self):
        """wait (cooperatively, briefly) until every connection handler has closed its socket"""
        for _ in range(2000):
            if self.handlers == 0:
                return
            gevent.sleep(0.0005)

    _shared = None

    @classmethod
    def shared(cls):
        if cls._shared is None:
            cls._shared = cls()
        return cls._shared

    @classmethod
    def stop_shared(cls):
        if cls._shared is not None:
            cls._shared.stop()
            cls._shared = None

    # -- protocol
    @staticmethod
    def _read_command(f):
        line = f.readline()
        if not line:
            return None
        if not line.startswith(b'*'):
            return line.split()
        n = int(line[1:])
        args = []
        for _ in range(n):
            hdr = f.readline()
            assert hdr.startswith(b'$'), hdr
            ln = int(hdr[1:])
            data = f.read(ln + 2)[:ln]
            args.append(data)
        return args

    @classmethod
    def _enc(cls, v, proto=2):
        if v is None:
            return b'_\r\n' if proto == 3 else b'$-1\r\n'
        if isinstance(v, dict):
            return b'%%%d\r\n' % len(v) + b''.join(cls._enc(k, proto) + cls._enc(x, proto) for k, x in v.items())
        if isinstance(v, bool):
            v = int(v)
        if isinstance(v, int):
            return b':%d\r\n' % v
        if isinstance(v, bytes):
            return b'$%d\r\n%s\r\n' % (len(v), v)
        if isinstance(v, _Status):
            return b'+' + v.text + b'\r\n'
        if isinstance(v, _Error):
            return b'-' + v.text + b'\r\n'
        if isinstance(v, (list, tuple)):
            return b'*%d\r\n' % len(v) + b''.join(cls._enc(x, proto) for x in v)
        raise TypeError(type(v))

    def _handle(self, sock, addr):
        self.handlers += 1
        try:
            import socket as _s
            sock.setsockopt(_s.IPPROTO_TCP, _s.TCP_NODELAY, 1)     # replies to a pipeline go out one by one
        except OSError:
            pass
        f = _QuickAckReader(sock)
        multi = None
        proto = [2]

        def send(v):
            sock.sendall(self._enc(v, proto[0]))
        import socket as _socket

        def quickack():
            # the client under test does not set TCP_NODELAY; without immediate ACKs a
            # command sent in two segments stalls ~40 ms on loopback (Nagle + delayed ACK)
            try:
                sock.setsockopt(_socket.IPPROTO_TCP, _socket.TCP_QUICKACK, 1)
            except (OSError, AttributeError):
                pass
        try:
            while True:
                quickack()
                args = self._read_command(f)
                if args is None:
                    return
                name = args[0].upper()
                if name == b'HELLO':
                    # redis-py >= 5 asks for RESP3 by default; redis >= 6 answers with a map
                    if len(args) > 1 and args[1] == b'3':
                        proto[0] = 3
                        send({b'server': b'redis', b'version': b'7.0.0', b'proto': 3, b'id': 1,
                              b'mode': b'standalone', b'role': b'master', b'modules': []})
                    elif len(args) > 1 and args[1] != b'2':
                        send(_Error(b'NOPROTO unsupported protocol version'))
                    else:
                        send([b'server', b'redis', b'version', b'7.0.0', b'proto', 2])
                    continue
                if name == b'MULTI':
                    multi = []
                    send(_Status(b'OK'))
                    continue
                if name == b'EXEC' and multi is not None:
                    cmds, multi = multi, None
                    self._wait()
                    try:
                        out = [self._execute(c) for c in cmds]      # atomic: no yield in between
                    finally:
                        self.in_flight -= 1
                    send(out)
                    continue
                if multi is not None:
                    multi.append(args)
                    send(_Status(b'QUEUED'))
                    continue
                if name == b'BLPOP':
                    send(self._blpop(args))
                    continue
                self._wait()
                try:
                    out = self._execute(args)
                finally:
                    self.in_flight -= 1
                send(out)
        except (ConnectionError, OSError):
            return
        finally:
            try:
                f.close()
            except Exception:
                pass
            try:
                sock.close()
            except Exception:
                pass
            self.handlers -= 1

    def _wait(self):
        self.in_flight += 1
        self.max_in_flight = max(self.max_in_flight, self.in_flight)
        self.commands += 1
        if self.latency:
            gevent.sleep(self.latency)

    def _blpop(self, args):
        keys = args[1:-1]
        while True:
            r = self.fake.blpop(keys)
            if r is not None:
                return list(r)
            gevent.sleep(0.001)           # BLPOP ... 0 blocks, cooperatively

    def _execute(self, args):
        name = args[0].upper()
        r = self.fake
        try:
            if name == b'HSETNX':
                return r._hsetnx(args[1], args[2], args[3])
            if name == b'HSET':
                n = 0
                for i in range(2, len(args), 2):
                    n += r._hset(args[1], args[i], args[i + 1])
                return n
            if name == b'HMSET':
                for i in range(2, len(args), 2):
                    r._hset(args[1], args[i], args[i + 1])
                return _Status(b'OK')
            if name == b'HGET':
                return r._hash(args[1]).get(args[2])
            if name == b'HMGET':
                h = r._hash(args[1])
                return [h.get(f) for f in args[2:]]
            if name == b'HINCRBY':
                h = r._hash(args[1], True)
                n = int(h.get(args[2], b'0')) + int(args[3])
                h[args[2]] = b'%d' % n
                return n
            if name == b'KEYS':
                saved, r.gate = r.gate, (lambda d: None)
                try:
                    return r.keys(args[1])
                finally:
                    r.gate = saved
            if name == b'DEL':
                n = 0
                for k in args[1:]:
                    if r.data.pop(k, None) is not None:
                        n += 1
                return n
            if name == b'RPUSH':
                return r._rpush(args[1], *args[2:])
            if name == b'SELECT' or name == b'PING':
                return _Status(b'OK') if name == b'SELECT' else _Status(b'PONG')
        except _ResponseError as e:
            return _Error(str(e).encode())
        return _Error(b"ERR unknown command '" + args[0] + b"'")


class _QuickAckReader(object):
    """buffered reader that asks for an immediate ACK after every recv: the client
    under test does not set TCP_NODELAY, and a command it sends in two segments
    would otherwise stall ~40 ms on loopback (Nagle waiting for a delayed ACK)"""

    def __init__(self, sock):
        self.sock = sock
        self.buf = b''

    def _fill(self):
        import socket as _socket
        data = self.sock.recv(65536)
        try:
            self.sock.setsockopt(_socket.IPPROTO_TCP, _socket.TCP_QUICKACK, 1)
        except (OSError, AttributeError):
            pass
        if not data:
            return False
        self.buf += data
        return True

    def readline(self):
        while b'\n' not in self.buf:
            if not self._fill():
                return b''
        i = self.buf.index(b'\n') + 1
        line, self.buf = self.buf[:i], self.buf[i:]
        return line

    def read(self, n):
        while len(self.buf) < n:
            if not self._fill():
                break
        data, self.buf = self.buf[:n], self.buf[n:]
        return data

    def close(self):
        pass


class _Status(object):
    def __init__(self, text):
        self.text = text


class _Error(object):
    def __init__(self, text):
        self.text = text
