"""Shared machinery of every check: model driver, value encoding, Coq
obligations, known findings, verdict and evidence."""
import os, sys, re, json, time, random, subprocess, hashlib, fcntl, glob

VERIF = '/verif'
REPO = os.environ.get('VERIF_REPO') or '/repo'
COQ = os.path.join(VERIF, 'coq')
DRIVER = os.path.join(VERIF, 'ocaml', 'driver')
FORBIDDEN = re.compile(r'\b(Admitted|admit|Axiom|Axioms|Parameter|Parameters|Conjecture|Conjectures|'
                       r'Unset\s+Guard|bypass_check|Admit\s+Obligations|type-in-type|impredicative-set|'
                       r'Unset\s+Universe\s+Checking|Unset\s+Positivity)\b')


# ------------------------------------------------------------------ values
def enc(v):
    """python value -> wire syntax of the driver"""
    if isinstance(v, bool):
        return '1' if v else '0'
    if isinstance(v, int):
        assert v >= 0, v
        return str(v)
    if isinstance(v, (bytes, bytearray)):
        return 'b' + bytes(v).hex()
    if isinstance(v, str):
        return 'u' + ','.join(str(ord(c)) for c in v)
    if isinstance(v, (list, tuple)):
        return '(' + ' '.join(enc(x) for x in v) + ')'
    if v is None:
        return '()'
    raise TypeError(type(v))


def canon(v):
    """python value -> canonical comparable form (ints, ('B', ints), tuples)"""
    if isinstance(v, bool):
        return 1 if v else 0
    if isinstance(v, int):
        return v
    if isinstance(v, (bytes, bytearray)):
        return ('B', tuple(v))
    if isinstance(v, str):
        return ('B', tuple(ord(c) for c in v))
    if isinstance(v, (list, tuple)):
        if len(v) == 2 and v[0] == 'B' and isinstance(v[1], tuple):
            return v
        return tuple(canon(x) for x in v)
    if v is None:
        return ()
    raise TypeError(type(v))


def dec(s):
    """wire syntax -> canonical form"""
    toks = re.findall(r'\(|\)|[^\s()]+', s)
    pos = 0

    def val():
        nonlocal pos
        t = toks[pos]; pos += 1
        if t == '(':
            items = []
            while toks[pos] != ')':
                items.append(val())
            pos += 1
            return tuple(items)
        if t[0] == 'b':
            return ('B', tuple(bytes.fromhex(t[1:])))
        if t[0] == 'u':
            return ('B', tuple(int(x) for x in t[1:].split(',')) if len(t) > 1 else ())
        return int(t)
    v = val()
    assert pos == len(toks), s
    return v


def B(v):
    """canonical ('B', ints) -> bytes"""
    assert v[0] == 'B'
    return bytes(v[1])


def U(v):
    assert v[0] == 'B'
    return ''.join(chr(c) for c in v[1])


def coq_val(c):
    """canonical form -> Coq term of type val"""
    if isinstance(c, int):
        return '(VN %d)' % c
    if isinstance(c, tuple) and len(c) == 2 and c[0] == 'B' and isinstance(c[1], tuple):
        return '(VB [%s])' % '; '.join(str(x) for x in c[1])
    return '(VL [%s])' % '; '.join(coq_val(x) for x in c)


def size_of(c):
    if isinstance(c, int):
        return 1
    if isinstance(c, tuple) and len(c) == 2 and c[0] == 'B' and isinstance(c[1], tuple):
        return 1 + len(c[1])
    return 1 + sum(size_of(x) for x in c)


class ModelError(Exception):
    pass


class Model(object):
    """Runs entry points of the extracted model.  Every call is recorded so a
    sample can be re-evaluated inside Coq (cross-check of extraction+driver)."""

    def __init__(self):
        if not os.access(DRIVER, os.X_OK):
            raise ModelError('driver not built')
        self.calls = 0
        self.record = []      # (name, canonical input, canonical output), small ones only
        self._rng = random.Random(12345)

    def batch(self, name, inputs):
        """inputs: list of python values; returns list of canonical outputs"""
        if not inputs:
            return []
        encs = [enc(i) for i in inputs]
        text = ''.join('%s %s\n' % (name, e) for e in encs)
        p = subprocess.run(['bash', '-c', 'ulimit -s unlimited 2>/dev/null; exec ' + DRIVER],
                           input=text.encode(), stdout=subprocess.PIPE, stderr=subprocess.PIPE)
        lines = p.stdout.decode().split('\n')
        if p.returncode != 0 or len(lines) < len(inputs) + 1:
            raise ModelError('driver failed rc=%s got %d of %d lines: %s' % (
                p.returncode, len(lines) - 1, len(inputs), p.stderr.decode()[-300:]))
        outs = []
        for i, l in enumerate(lines[:len(inputs)]):
            if l.startswith('!'):
                raise ModelError('driver error on %s %s: %s' % (name, encs[i][:200], l))
            o = dec(l)
            outs.append(o)
            self.calls += 1
            ci = canon(inputs[i])
            if size_of(ci) + size_of(o) < 400:
                # reservoir of at most 400 recorded calls
                if len(self.record) < 400:
                    self.record.append((name, ci, o))
                else:
                    j = self._rng.randrange(self.calls)
                    if j < 400:
                        self.record[j] = (name, ci, o)
        return outs

    def call(self, name, v):
        return self.batch(name, [v])[0]


# ------------------------------------------------------------------ build / Coq
def build(prop_id=None):
    """full .vo build + extraction + driver; returns (ok, message)"""
    p = subprocess.run([os.path.join(VERIF, 'build.sh')] + ([prop_id] if prop_id else []), stdout=subprocess.PIPE, stderr=subprocess.STDOUT)
    return p.returncode, p.stdout.decode()


def scan_forbidden():
    bad = []
    for f in glob.glob(os.path.join(COQ, '**', '*.v'), recursive=True):
        if '/xcheck/' in f:
            continue
        txt = open(f).read()
        txt = re.sub(r'\(\*.*?\*\)', '', txt, flags=re.S)
        for m in FORBIDDEN.finditer(txt):
            bad.append('%s: %s' % (os.path.relpath(f, COQ), m.group(0)))
    return bad


def coq_prop(prop_id, extra_files=()):
    """Re-compiles prop/<id>.v (its dependencies were built by build.sh) and
    returns dict(theorems, compiled, assumptions, output)."""
    src = os.path.join(COQ, 'prop', prop_id + '.v')
    txt = open(src).read()
    stripped = re.sub(r'\(\*.*?\*\)', '', txt, flags=re.S)
    theorems = re.findall(r'^\s*Theorem\s+(\w+)', stripped, flags=re.M)
    tmpd = os.path.join(VERIF, 'tmp', 'p%d' % os.getpid())
    os.makedirs(tmpd, exist_ok=True)
    out_vo = os.path.join(tmpd, '%s.vo' % prop_id)
    t0 = time.time()
    p = subprocess.run(['flock', '-s', os.path.join(VERIF, '.build.lock'), 'timeout', '900', 'coqc', '-Q', '.', 'SV', '-o', out_vo, 'prop/%s.v' % prop_id],
                       cwd=COQ, stdout=subprocess.PIPE, stderr=subprocess.STDOUT)
    out = p.stdout.decode()
    import shutil
    shutil.rmtree(tmpd, ignore_errors=True)
    # Print Assumptions blocks
    assumptions = {}
    closed = out.count('Closed under the global context')
    axioms = re.findall(r'^Axioms:\n((?:.+\n)+?)(?=\S|\Z)', out, flags=re.M)
    return dict(theorems=theorems, compiled=(p.returncode == 0), output=out,
                closed=closed, axioms_blocks=axioms, wall=time.time() - t0,
                cmd='cd /verif/coq && make -j16 (full .vo build) && coqc -Q . SV prop/%s.v' % prop_id)


def xcheck(prop_id, model, limit=200):
    """Re-evaluates a sample of the recorded driver calls inside Coq with
    vm_compute and compares.  Returns (n_checked, mismatching indices or None on failure, text)."""
    rec = model.record[:limit]
    if not rec:
        return 0, [], ''
    d = os.path.join(COQ, 'xcheck')
    os.makedirs(d, exist_ok=True)
    name = 'X_%s_%d' % (prop_id, os.getpid())
    path = os.path.join(d, name + '.v')
    with open(path, 'w') as f:
        f.write('From Coq Require Import List NArith String.\nFrom SV Require Import lib.Val extract.AllEntries.\n'
                'Import ListNotations.\nOpen Scope N_scope.\n')
        f.write('Definition cases : list (string * val * val) := [\n')
        f.write(';\n'.join('  ("%s"%%string, %s, %s)' % (n, coq_val(i), coq_val(o)) for n, i, o in rec))
        f.write('].\n')
        f.write('Fixpoint bad (k : N) (cs : list (string * val * val)) : list N :=\n'
                '  match cs with [] => [] | (n, i, o) :: cs\' =>\n'
                '    if val_eqb (sv_run_entry n i) o then bad (k + 1) cs\' else k :: bad (k + 1) cs\' end.\n')
        f.write('Eval vm_compute in (bad 0 cases).\n')
    p = subprocess.run(['flock', '-s', os.path.join(VERIF, '.build.lock'), 'bash', '-c', 'ulimit -s unlimited 2>/dev/null; timeout 600 coqc -Q . SV xcheck/%s.v' % name],
                       cwd=COQ, stdout=subprocess.PIPE, stderr=subprocess.STDOUT)
    out = p.stdout.decode()
    for f in glob.glob(os.path.join(d, name + '.*')) + glob.glob(os.path.join(d, '.' + name + '.*')):
        try:
            os.remove(f)
        except OSError:
            pass
    if p.returncode != 0:
        return len(rec), None, out
    m = re.search(r'=\s*\[(.*?)\]\s*:\s*list N', out, flags=re.S)
    if not m:
        return len(rec), None, out
    body = m.group(1).strip()
    badidx = [int(x.strip().rstrip('%N')) for x in body.split(';')] if body else []
    return len(rec), badidx, out


# ------------------------------------------------------------------ findings
def load_findings(prop_id):
    path = os.path.join(VERIF, 'known_findings.json')
    if not os.path.exists(path):
        return []
    return [f for f in json.load(open(path)) if f.get('property') == prop_id]


# ------------------------------------------------------------------ context
class Ctx(object):
    def __init__(self, prop_id, tier, seed):
        self.prop_id = prop_id
        self.tier = tier
        self.seed = seed
        self.rng = random.Random(seed)
        self.model = None
        self.evaluations = 0
        self.nontrivial = set()
        self.samples = []
        self.dist = {}
        self.mismatches = []      # correspondence disagreements: dict(kind, case, impl, model)
        self.failures = []        # oracle failures: dict(key, case, what)
        self.notes = []
        self.extra = {}
        self.t0 = time.time()
        self.known = load_findings(prop_id)

    @property
    def quick(self):
        return self.tier == 'quick'

    def count(self, key, n=1):
        self.dist[key] = self.dist.get(key, 0) + n

    def sample(self, s, cap=6):
        if len(self.samples) < cap:
            self.samples.append(s)

    def evaluated(self, case_repr, nontrivial=True):
        """one case explored; case_repr any json-able/hashable description"""
        self.evaluations += 1
        if nontrivial:
            h = hashlib.blake2b(repr(case_repr).encode(), digest_size=8).digest()
            self.nontrivial.add(h)

    def mismatch(self, kind, case, impl, model):
        if len(self.mismatches) < 50:
            self.mismatches.append(dict(kind=kind, case=case, impl=impl, model=model))
        self.count('mismatch:' + kind)

    def fail(self, key, case, what):
        """property oracle failed on the implementation for `case`; key names the
        specific failing-input class (matched against known_findings.json)"""
        if len(self.failures) < 200:
            self.failures.append(dict(key=key, case=case, what=what))
        self.count('oracle-fail:' + key)

    def note(self, s):
        if s not in self.notes and len(self.notes) < 40:
            self.notes.append(s)


def jsonable(x):
    if isinstance(x, (bytes, bytearray)):
        return {'hex': bytes(x).hex()}
    if isinstance(x, dict):
        return {str(k): jsonable(v) for k, v in x.items()}
    if isinstance(x, (list, tuple, set, frozenset)):
        return [jsonable(v) for v in x]
    if isinstance(x, (int, float, str, bool)) or x is None:
        return x
    return repr(x)
