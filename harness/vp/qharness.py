"""Virtual gevent environment for the real slimta.queue.Queue (DESIGN §6).

Every storage call, every relay attempt, the storage's load()/wait() and the
scheduler's wake.wait() block on gates owned by the harness; the clock is
virtual.  A schedule is the list of harness choices.  While the real code runs,
each atomic segment it executes is translated into one event of the Coq model
(model/Queue.v); the model is then run on that event list and its state is
compared with the real queue's state at every quiescent point (trace
validation), and the properties are evaluated directly on the real trace."""
import sys, gevent, logging
logging.getLogger('slimta').addHandler(logging.NullHandler())
logging.getLogger('slimta').propagate = False
from gevent.event import AsyncResult

import slimta.queue as Q
from slimta.queue import Queue
from slimta.queue.dict import DictStorage
from slimta.envelope import Envelope
from slimta.relay import Relay, PermanentRelayError, TransientRelayError
from slimta.policy import RelayPolicy
import slimta.relay.pipe as pipe_mod
from slimta.relay.pipe import PipeRelay
from slimta.smtp.reply import Reply


class _VTime(object):
    def __init__(self, h):
        self.h = h

    def time(self):
        return float(self.h.clock)


class VEvent(object):
    """Stand-in for gevent.event.Event as used by Queue.wake, with virtual timeouts."""

    def __init__(self, h):
        self.h = h
        self.flag = False
        self.waiters = []      # [AsyncResult, deadline]

    def is_set(self):
        return self.flag
    isSet = is_set

    def set(self):
        self.flag = True
        ws, self.waiters = self.waiters, []
        for w, dl in ws:
            w.set('set')

    def clear(self):
        self.flag = False

    def wait(self, timeout=None):
        if self.flag:
            return True
        w = AsyncResult()
        dl = None if timeout is None else self.h.clock + timeout
        self.waiters.append((w, dl))
        self.h.activity += 1
        w.get()
        self.h.emit((7,))                    # EWakeup
        return self.flag

    def fire(self, now):
        keep = []
        for w, dl in self.waiters:
            if dl is not None and dl <= now:
                w.set('timeout')
            else:
                keep.append((w, dl))
        self.waiters = keep


class Kill(BaseException):
    pass


class Gate(object):
    def __init__(self, kind, mid, info=None):
        self.kind = kind
        self.mid = mid
        self.info = info
        self.ar = AsyncResult()

    def __repr__(self):
        return '<%s %s>' % (self.kind, self.mid)


RES_CODE = {'ok': 0, 'perm': 1, 'temp': 2, 'junk': 3}
INF = float('inf')
BIG = 2 ** 40        # the model's stand-in for an infinite backoff answer ("hold until flushed")


def ts_int(ts):
    """a timetable / storage timestamp as the model sees it: an infinite due time is BIG past anything"""
    return BIG if ts == INF or ts >= BIG else int(ts)



class _Busy(object):
    """proxy that counts calls in progress on the real storage backend (they may do real I/O)"""

    def __init__(self, h, inner):
        self._h = h
        self._inner = inner

    def __getattr__(self, name):
        f = getattr(self._inner, name)
        if not callable(f) or name in ('load',):
            return f
        h = self._h

        def call(*a, **kw):
            h.busy += 1
            try:
                return f(*a, **kw)
            finally:
                h.busy -= 1
                h.activity += 1
        return call


def norm_id(rid):
    """storage ids as the harness keys them: RedisStorage may hand the same id back as bytes or str;
    the harness tracks the MESSAGE, so that two representations of one id are seen as one message"""
    return rid.decode('ascii', 'replace') if isinstance(rid, bytes) else rid


class _IdMap(dict):
    def __getitem__(self, k):
        return dict.__getitem__(self, norm_id(k))

    def __setitem__(self, k, v):
        dict.__setitem__(self, norm_id(k), v)

    def __contains__(self, k):
        return dict.__contains__(self, norm_id(k))

    def get(self, k, d=None):
        return dict.get(self, norm_id(k), d)


class TraceStore(object):
    """QueueStorage wrapper: gates + model events."""

    def __init__(self, h, inner):
        self.h = h
        self.inner = _Busy(h, inner)

    def write(self, envelope, timestamp):
        self.h.gate('write', None)
        rid = self.inner.write(envelope, timestamp)
        mid = self.h.new_id(rid)
        envelope._vid = mid
        rc = [self.h.rnum(r) for r in envelope.recipients]
        self.h.accepted[mid] = (bool(envelope.sender), list(rc))
        self.h.emit((0, 1 if envelope.sender else 0, bytes(rc), int(timestamp)))
        if self.h.post_write_gate:
            # the message is in storage but enqueue() has not resumed yet: the window in which a
            # storage that announces its own writes (redis, cloud + message queue) can deliver the
            # announcement of this very id
            self.h.gate('written', mid)
        return rid

    def increment_attempts(self, id):
        mid = self.h.ids[id]
        b = self.h.gate('incr', mid)
        self.h.next_backoff = b
        if b is None:
            last = [a for a in self.h.attempts if a['id'] == mid][-1]
            out = last.get('outcome', ('temp',))
            if out[0] in ('map', 'seq', 'rmap', 'gmap'):
                gone = [r for r, x in zip(last['rcpts'], out[1]) if x == 'temp']
            else:
                gone = list(last['rcpts'])
            for r in gone:
                self.h.exhausted.add((mid, r))
        self.h.emit((3, mid, () if b is None else ((BIG if b == INF else b),)))
        return self.inner.increment_attempts(id)

    def set_timestamp(self, id, timestamp):
        mid = self.h.ids[id]
        self.h.gate('set_ts', mid)
        self.h.emit((3, mid, ()))
        self.inner.set_timestamp(id, timestamp)
        self.h.due[mid] = timestamp
        self.h.due_epoch[mid] = self.h.flush_epoch

    def set_recipients_delivered(self, id, rcpt_indexes):
        mid = self.h.ids[id]
        self.h.gate('set_deliv', mid)
        self.h.emit((3, mid, ()))
        self.inner.set_recipients_delivered(id, rcpt_indexes)

    def get(self, id):
        mid = self.h.ids.get(id)
        if mid is None:
            mid = self.h.foreign_id(id)
        self.h.gate('get', mid)
        self.h.emit((4, mid))
        # a missing message raises KeyError (dict, redis, cloud) or FileNotFoundError (disk);
        # Queue._dequeue treats every exception alike as far as its bookkeeping goes
        env, attempts = self.inner.get(id)
        env._vid = mid
        return env, attempts

    def remove(self, id):
        mid = self.h.ids[id]
        self.h.gate('remove', mid)
        self.h.removed.append(mid)
        self.h.emit((5, mid))
        self.inner.remove(id)        # may raise on an already removed message (cloud): the greenlet dies

    def load(self):
        entries = self.h.gate('load', None)
        for e in entries or []:
            yield e

    def wait(self):
        if self.h.wait_generator:
            return self._wait_gen()
        entries = self.h.gate('wait', None)
        return entries or []

    def _wait_gen(self):
        # QueueStorage.wait() may be a generator (CloudStorage.wait is one: after its last yield it
        # deletes the announcement and idles for poll_pause before it is exhausted): what it has
        # yielded must take effect without waiting for the generator to finish
        entries = self.h.gate('wait', None)
        for e in entries or []:
            yield e
        self.h.gate('wait_end', None)

    def get_info(self):
        return self.inner.get_info()


class _RelayBook(object):
    """bookkeeping shared by the stub relay and the real PipeRelay driven by scripted processes"""

    def _begin(self, envelope, attempts):
        h = self.h
        mid = envelope._vid
        rc = [h.rnum(r) for r in envelope.recipients]
        h.attempts.append(dict(id=mid, rcpts=rc, n=attempts, start=h.clock, end=None, seq=len(h.trace)))
        rec = h.attempts[-1]
        h.inflight[mid] = h.inflight.get(mid, 0) + 1
        if h.inflight[mid] > 1:
            h.overlaps.append(mid)
        again = [r for r in rc if (mid, r) in h.settled]
        if again:
            h.resend.append((mid, again, attempts))
        nth = len([a for a in h.attempts if a['id'] == mid])
        if nth > 1 and mid in h.due and h.due_epoch.get(mid) == h.flush_epoch and h.clock < h.due[mid]:
            h.early.append((mid, h.clock, h.due[mid]))
        out = h.gate('relay', mid, info=rc)
        h.inflight[mid] -= 1
        rec['end'] = h.clock
        rec['outcome'] = out
        return mid, rc, out


class StubRelay(_RelayBook, Relay):
    def __init__(self, h):
        Relay.__init__(self)
        self.h = h

    def attempt(self, envelope, attempts):
        h = self.h
        mid, rc, out = self._begin(envelope, attempts)
        kind = out[0]
        if kind == 'ok':
            h.note_settled(mid, rc, 'deliv')
            h.emit((2, mid, (0,)))
            return None
        # the relay contract classifies by the exception CLASS; the reply an error carries is free
        # text for the bounce (a permanent error may carry a 4xx reply and the other way round)
        cross = h.cross_codes and (len(h.attempts) % 2 == 1)
        tcode, pcode = ('550', '450') if cross else ('450', '550')
        if kind == 'temp':
            h.emit((2, mid, (1,)))
            raise TransientRelayError('t', Reply(tcode, 'transient'))
        if kind == 'perm':
            h.note_settled(mid, rc, 'fail')
            h.emit((2, mid, (2,)))
            raise PermanentRelayError('p', Reply(pcode, 'permanent'))
        if kind == 'other':
            h.emit((2, mid, (3,)))
            raise ValueError('boom')
        if kind in ('map', 'seq', 'rmap', 'gmap'):
            res = out[1]
            h.note_settled(mid, [r for r, x in zip(rc, res) if x == 'ok'], 'deliv')
            h.note_settled(mid, [r for r, x in zip(rc, res) if x == 'perm'], 'fail')
            h.emit((2, mid, (4, tuple(RES_CODE[x] for x in res))))
            vals = []
            for x in res:
                if x == 'ok':
                    vals.append(None)
                elif x == 'perm':
                    vals.append(PermanentRelayError('p', Reply(pcode, 'permanent')))
                elif x == 'temp':
                    vals.append(TransientRelayError('t', Reply(tcode, 'transient')))
                else:
                    vals.append(object())
            if kind == 'seq':
                return vals
            pairs = list(zip(envelope.recipients, vals))
            # Relay.attempt may return ANY mapping: the key order need not be the recipient order
            # (a relay that reports per destination domain); the model event is the same
            if kind == 'rmap':
                pairs.reverse()
            elif kind == 'gmap':
                pairs = pairs[1::2] + pairs[0::2]
            return dict(pairs)
        raise AssertionError(out)


class _RewriteDomain(RelayPolicy):
    """a RelayPolicy that rewrites every recipient's domain in place (documented as allowed): the
    relay then reports per-recipient results keyed by the REWRITTEN addresses"""

    def apply(self, envelope):
        for i, r in enumerate(envelope.recipients):
            if not r.endswith('@relay.example'):
                envelope.recipients[i] = r.split('@')[0] + '@relay.example'


class _FakeProc(object):
    def __init__(self, spec):
        self.returncode = None
        self.pid = 4242
        self._spec = spec

    def communicate(self, stdin=None):
        self.returncode, out, err = self._spec
        return out, err


class _FakeSubprocess(object):
    """stands in for the `subprocess` module inside slimta.relay.pipe: each Popen() takes the next
    scripted (exit status, stdout, stderr); the process itself is the ground truth of the delivery"""
    PIPE = -1

    def __init__(self):
        self.script = []
        self.ran = []

    def Popen(self, args, **kw):
        spec = self.script.pop(0)
        self.ran.append((list(args), spec))
        if spec == 'oserror':
            raise OSError(2, 'No such file or directory')
        return _FakeProc(spec)


# what the external command did, by scripted outcome.  A delivery happened iff the process exited 0;
# death by signal (negative status) and every other non-zero status is a failure, permanent only when
# the output starts with a 5.x.x code (PipeRelay.raise_error's documented contract).
PIPE_TEMP = [(75, b'', b'4.2.0 mailbox busy\n'), (-9, b'', b''), (1, b'deferred\n', b''), (-15, b'', b'terminated\n'), (255, b'', b'')]
PIPE_PERM = [(1, b'5.1.1 no such user\n', b''), (-6, b'5.3.0 filter aborted\n', b''), (67, b'', b'5.1.1 unknown\n')]


class ScriptedPipeRelay(_RelayBook, PipeRelay):
    """the REAL slimta.relay.pipe.PipeRelay; only subprocess.Popen is scripted.  The oracle's ground
    truth is what the processes did, not what PipeRelay reports to the queue."""

    def __init__(self, h, per_recipient):
        PipeRelay.__init__(self, ['deliver', '{sender}', '{recipient}'])
        self.h = h
        self.per_recipient = per_recipient
        self.fake = _FakeSubprocess()
        self.nth = 0

    def _spec(self, x):
        self.nth += 1
        if x == 'ok':
            return (0, b'', b'')
        if x == 'perm':
            return PIPE_PERM[self.nth % len(PIPE_PERM)]
        return PIPE_TEMP[self.nth % len(PIPE_TEMP)]

    def attempt(self, envelope, attempts):
        h = self.h
        mid, rc, out = self._begin(envelope, attempts)
        kind = out[0]
        if kind in ('map', 'seq', 'rmap', 'gmap'):
            res = ['temp' if x == 'junk' else x for x in out[1]]
        else:
            res = [kind] * len(rc)
        # what the oracle's bookkeeping sees is the EFFECTIVE outcome (what the processes did)
        rec = [a for a in h.attempts if a['id'] == mid][-1]
        if kind == 'other':
            rec['outcome'] = ('other',)
        elif self.per_recipient:
            rec['outcome'] = ('map', tuple(res))
        else:
            rec['outcome'] = (res[0],)
        if kind == 'other':
            self.fake.script = ['oserror']
            h.emit((2, mid, (3,)))
        elif self.per_recipient:
            self.fake.script = [self._spec(x) for x in res]
            h.note_settled(mid, [r for r, x in zip(rc, res) if x == 'ok'], 'deliv')
            h.note_settled(mid, [r for r, x in zip(rc, res) if x == 'perm'], 'fail')
            h.emit((2, mid, (4, tuple(RES_CODE[x] for x in res))))
        else:
            x = res[0]
            self.fake.script = [self._spec(x)]
            if x == 'ok':
                h.note_settled(mid, rc, 'deliv')
            elif x == 'perm':
                h.note_settled(mid, rc, 'fail')
            h.emit((2, mid, ({'ok': 0, 'temp': 1, 'perm': 2}[x],)))
        old = pipe_mod.subprocess
        pipe_mod.subprocess = self.fake
        try:
            return PipeRelay.attempt(self, envelope, attempts)
        except OSError:
            raise
        except (PermanentRelayError, TransientRelayError):
            raise
        except BaseException as exc:
            if not isinstance(exc, Kill):
                h.errors.append('ScriptedPipeRelay: %r' % (exc,))
            raise
        finally:
            pipe_mod.subprocess = old


class BounceRecorder(object):
    def __init__(self, h):
        self.h = h

    def enqueue(self, bounce):
        self.h.bounces.append(bounce)
        return [(bounce, 'bounce-id')]


class QH(object):
    def __init__(self, inner=None, start=True, store_pool=None, relay_pool=None, relay_kind=None, ids=None, clock=0, init=None):
        hub = gevent.get_hub()
        try:
            hub.exception_stream = None
        except Exception:
            pass
        self.clock = clock
        self.init = init          # (store, next id, clock) of a restarted queue, None = fresh
        self.activity = 0
        self.busy = 0
        self.trace = []         # model events, in the order the real code performed them
        self.marks = []         # (len(trace), snapshot) at each quiescent point
        self.gates = []
        self.ids = _IdMap(ids or {})           # real id -> model id
        self.rids = dict((v, k) for k, v in self.ids.items())          # model id -> real id
        self.accepted = {}
        self.attempts = []
        self.inflight = {}
        self.overlaps = []
        self.settled = {}       # (mid, rcpt) -> 'deliv'|'fail' (first settlement)
        self.settle_log = []
        self.resend = []
        self.bounces = []
        self.removed = []
        self.due = {}           # mid -> last timestamp written by set_timestamp
        self.due_epoch = {}     # mid -> flush epoch when it was written
        self.flush_epoch = 0
        self.exhausted = set()  # (mid, rcpt) given up after backoff returned None
        self.early = []
        self.next_backoff = None
        self.greenlets = []
        self.flush_calls = 0
        self.flush_returns = 0
        self.errors = []
        self.load_errors = []
        self.post_write_gate = False
        self.wait_generator = False
        self.cross_codes = False
        self.volatile_ts = {}     # mid -> timestamp to report for entries whose stored timestamp is 'now' at every listing (redis orphans)
        self.inner = inner if inner is not None else DictStorage()
        self.store = TraceStore(self, self.inner)
        if relay_kind in ('pipe', 'pipe1'):
            self.relay = ScriptedPipeRelay(self, relay_kind == 'pipe')
        else:
            self.relay = StubRelay(self)
        self.bq = BounceRecorder(self)
        self._old_time = Q.time
        Q.time = _VTime(self)
        # RedisStorage.load() falls back to time.time() for an entry without a timestamp: virtual too
        self._redis_time = None
        if type(self.inner).__name__ == 'RedisStorage':
            rmod = sys.modules[type(self.inner).__module__]
            self._redis_time = (rmod, getattr(rmod, 'time', None))
            rmod.time = _VTime(self)
        self.queue = Queue(self.store, self.relay, backoff=self._backoff,
                           bounce_factory=self._bounce_factory, bounce_queue=self.bq,
                           store_pool=store_pool, relay_pool=relay_pool)
        self.queue.wake = VEvent(self)
        h = self
        orig_check = self.queue._check_ready

        def check_ready(now):
            h.emit((6,))
            return orig_check(now)
        self.queue._check_ready = check_ready
        orig_add = self.queue._add_queued

        def add_queued(entry, *a, **kw):
            caller = sys._getframe(1).f_code.co_name
            if caller in ('_load_all', '_wait_store'):
                ts, rid = entry
                mid = h.ids.get(rid)
                if mid is None:
                    mid = h.foreign_id(rid)
                h.emit((9, ts_int(ts), mid))
            return orig_add(entry, *a, **kw)
        self.queue._add_queued = add_queued
        orig_imap = self.queue._pool_imap

        def pool_imap(which, func, *its):
            ret = orig_imap(which, func, *its)
            for rid in ret:
                if not isinstance(rid, BaseException):
                    h.emit((1, h.ids[rid]))
            return ret
        self.queue._pool_imap = pool_imap
        self.blocked = []       # relay attempts whose pool.spawn is waiting for a free slot
        self.blocked_store = []  # store-pool spawns waiting for a free slot (bounded store pool scenarios)
        orig_spawn = self.queue._pool_spawn

        def pool_spawn(which, func, *a, **kw):
            pool = getattr(self.queue, which + '_pool', None)
            if which == 'relay' and pool is not None and pool.free_count() <= 0 and a:
                rec = ('relay', h.ids.get(a[0], -1))
                h.blocked.append(rec)
                h.activity += 1
                try:
                    return orig_spawn(which, func, *a, **kw)
                finally:
                    h.blocked.remove(rec)
                    h.activity += 1
            if which == 'store' and pool is not None and pool.free_count() <= 0 and a:
                # a caller parked in pool.spawn() for a store slot: the work for that id is under way
                rec = ('store', h.ids.get(a[0], -1))
                h.blocked_store.append(rec)
                h.activity += 1
                try:
                    return orig_spawn(which, func, *a, **kw)
                finally:
                    h.blocked_store.remove(rec)
                    h.activity += 1
            return orig_spawn(which, func, *a, **kw)
        self.queue._pool_spawn = pool_spawn
        self.bounded_relay = relay_pool is not None
        self.started = False
        if start:
            self.queue.start()
            self.started = True
            self.settle()

    # ------------------------------------------------------------ plumbing
    def close(self):
        for g in list(self.gates):
            g.ar.set_exception(Kill())
        self.gates = []
        for w, dl in self.queue.wake.waiters:
            w.set_exception(Kill())
        self.queue.wake.waiters = []
        try:
            self.queue.kill()
        except BaseException:
            pass
        for g in self.greenlets:
            try:
                g.kill(block=False)
            except BaseException:
                pass
        for _ in range(5):
            gevent.sleep(0)
        Q.time = self._old_time
        if self._redis_time is not None:
            rmod, old = self._redis_time
            if old is None:
                try:
                    del rmod.time
                except AttributeError:
                    pass
            else:
                rmod.time = old
            self._redis_time = None

    def rnum(self, r):
        # recipient numbers >= 100 are case twins: number 100+n is 'Rn@example.com', which differs from
        # number n ('rn@example.com') only in the case of the local part - a different mailbox
        local = r.split('@')[0]
        return int(local[1:]) + (100 if local[0] == 'R' else 0)

    @staticmethod
    def addr(n):
        return ('R%d@example.com' % (n - 100)) if n >= 100 else ('r%d@example.com' % n)

    def new_id(self, rid):
        mid = len([k for k in self.ids.values() if k < 1000])
        self.ids[rid] = mid
        self.rids[mid] = rid
        return mid

    def foreign_id(self, rid):
        # ids never written through this queue: map to numbers the model never allocates
        mid = 1000 + len([k for k in self.ids.values() if k >= 1000])
        self.ids[rid] = mid
        self.rids[mid] = rid
        return mid

    def emit(self, ev):
        self.activity += 1
        self.trace.append(ev)

    def gate(self, kind, mid, info=None):
        g = Gate(kind, mid, info)
        self.gates.append(g)
        self.activity += 1
        return g.ar.get()

    def _backoff(self, envelope, attempts):
        # an age-based policy, as deployments write them: it reads the envelope's timestamp (set by the
        # edge at hand-off) - the envelope the queue passes must be the message's, with its metadata
        age = self.clock - envelope.timestamp
        if age < 0:
            self.errors.append('backoff: envelope timestamp %r lies in the future of %r' % (envelope.timestamp, self.clock))
        return self.next_backoff

    def _bounce_factory(self, envelope, reply):
        return ('bounce', [self.rnum(r) for r in envelope.recipients], reply.code, reply.message)

    def note_settled(self, mid, rcpts, how):
        for r in rcpts:
            self.settled.setdefault((mid, r), how)
            self.settle_log.append((mid, r, how))

    def settle(self):
        """run the hub until every greenlet is blocked on a gate"""
        quiet = 0
        for _ in range(20000):
            a = self.activity
            gevent.sleep(0.0005 if self.busy else 0)
            if self.activity == a and not self.busy:
                quiet += 1
                if quiet >= 3:
                    break
            else:
                quiet = 0
        self.marks.append((len(self.trace), self.snapshot()))

    def listing(self):
        try:
            return list(self.inner.load())
        except Exception as exc:
            if not self.load_errors:
                self.load_errors.append('%s: %s' % (type(exc).__name__, exc))
            return []

    def snapshot(self):
        q = self.queue
        st = []
        try:
            listing = sorted(self.inner.load(), key=lambda e: self.ids.get(e[1], -1))
        except Exception as exc:           # a listing that raises is part of the observed state (and judged by the oracles)
            listing = []
            st.append((-1, 'load-raises:' + type(exc).__name__, (), -1, -1))
            if not self.load_errors:
                self.load_errors.append('%s: %s' % (type(exc).__name__, exc))
        for ts, rid in listing:
            try:
                env, att = self.inner.get(rid)
            except Exception as exc:       # a corrupted entry is part of the observed state
                st.append((self.ids.get(rid, -1), 'get-raises:' + type(exc).__name__, (), -1, ts_int(ts)))
                continue
            mid_ = self.ids[rid]
            st.append((mid_, 1 if env.sender else 0, tuple(self.rnum(r) for r in env.recipients), att, self.volatile_ts.get(mid_, ts_int(ts))))
        wait = None
        if q.wake.waiters:
            dl_ = q.wake.waiters[0][1]
            wait = ('wait', None if dl_ is None else (BIG if dl_ == INF or dl_ >= BIG else dl_))
        return dict(
            store=sorted(st, key=repr),
            queued=sorted((ts_int(ts), self.ids[rid]) for ts, rid in q.queued),
            qids=sorted(self.ids[r] for r in q.queued_ids),
            active=sorted(self.ids[r] for r in q.active_ids),
            gates=sorted([(g.kind, g.mid) for g in self.gates if g.kind not in ('write', 'written', 'load', 'wait', 'wait_end')] + list(self.blocked)),
            sched=wait, wake=q.wake.flag, clock=self.clock)

    # ------------------------------------------------------------ actions
    def pending(self, kind=None, mid=None):
        return [g for g in self.gates if (kind is None or g.kind == kind) and (mid is None or g.mid == mid)]

    def release(self, g, payload=None):
        self.gates.remove(g)
        if g.kind == 'relay':
            # record what the oracle needs before the code continues
            pass
        g.ar.set(payload)
        self.settle()

    def act_enqueue(self, sender, rcpts):
        env = Envelope(sender, [self.addr(r) for r in rcpts])
        env.parse(b'From: sender@example.com\r\nSubject: queue harness\r\n\r\nbody\r\n')
        env.timestamp = float(self.clock)       # what Edge.handoff() does

        def run():
            try:
                self.queue.enqueue(env)
            except Kill:
                pass
        self.greenlets.append(gevent.spawn(run))
        self.settle()

    def act_advance(self, d):
        self.clock += d
        self.emit((8, d))
        self.queue.wake.fire(self.clock)
        self.settle()

    def act_flush(self):
        self.flush_calls += 1

        def run():
            try:
                self.emit((10,))
                self.queue.flush()
                self.flush_returns += 1
            except Kill:
                pass
        self.greenlets.append(gevent.spawn(run))
        self.settle()


# ---------------------------------------------------------------- model side
def decode_state(o):
    """canonical value of E_Queue.enc_state -> dict comparable with QH.snapshot()"""
    from vp.core import B
    store, queued, qids, active, tasks, sched, wake, clock, deliv, fail, atts, removed = o
    TASK_GATE = {1: 'relay', 2: 'incr', 3: 'set_ts', 4: 'set_deliv', 5: 'get', 6: 'remove', 7: 'remove'}
    gates = []
    enq = []
    for t in tasks:
        if t[0] == 0:
            enq.append(t[1])
        else:
            gates.append((TASK_GATE[t[0]], t[1]))
    if sched[0] == 0:
        sc = None
    elif sched[0] == 1:
        sc = ('wait', None)
    elif sched[0] == 2:
        sc = ('wait', BIG if sched[1] >= BIG else sched[1])
    else:
        sc = ('woken',)
    return dict(
        store=sorted((m[0], m[1], tuple(m[2][1]), m[3], BIG if m[4] >= BIG else m[4]) for m in store),
        queued=sorted((BIG if e[0] >= BIG else e[0], e[1]) for e in queued),
        qids=sorted(qids[1]), active=sorted(active[1]),
        gates=sorted(gates), sched=sc, wake=bool(wake), clock=clock,
        enq=enq,
        deliv=sorted((d[0], d[1]) for d in deliv),
        fail=sorted((f[0], f[1], f[2]) for f in fail),
        atts=[(a[0], tuple(a[1][1]), a[2], a[3], a[4]) for a in reversed(atts)],
        removed=sorted(removed[1]))


KEYS = ('store', 'queued', 'qids', 'active', 'gates', 'sched', 'wake', 'clock')


def compare_with_model(ctx, h, label):
    """trace validation: run the model on the events the real code performed and
    compare its state with the real queue at every quiescent point"""
    if not h.trace:
        return True
    if getattr(h, 'init', None) is not None:
        st0, nx0, c0 = h.init
        states = ctx.model.call('cq_trace_from', [[list(m) for m in st0], nx0, c0, [list(e) for e in map(_enc_event, h.trace)]])
    else:
        states = ctx.model.call('cq_trace', [list(e) for e in map(_enc_event, h.trace)])
    ok = True
    for n, snap in h.marks:
        if n == 0:
            continue
        ms = decode_state(states[n - 1])
        diff = {k: (snap[k], ms[k]) for k in KEYS if snap[k] != ms[k]}
        if diff:
            ctx.mismatch('queue-state', dict(schedule=label, events=h.trace[:n], at_event=n), {k: v[0] for k, v in diff.items()}, {k: v[1] for k, v in diff.items()})
            ok = False
            break
    if ok:
        final = decode_state(states[-1])
        # ghost logs against the harness' own records
        real_atts = [(a['id'], tuple(a['rcpts']), a['n'], a['start']) for a in h.attempts]
        model_atts = [a[:4] for a in final['atts']]
        if getattr(h, 'bounded_relay', False):
            # with a bounded relay pool an attempt starts when a slot is free: the model logs the spawn time
            real_atts = [a[:3] for a in real_atts]
            started = set((a[0], a[2]) for a in real_atts)
            model_atts = [a[:3] for a in model_atts if (a[0], a[2]) in started]
        if sorted(real_atts) != sorted(model_atts):
            ctx.mismatch('queue-attempts', dict(schedule=label, events=h.trace), real_atts, model_atts)
            ok = False
        real_deliv = sorted((m, r) for m, r, how in h.settle_log if how == 'deliv')
        if real_deliv != final['deliv']:
            ctx.mismatch('queue-delivered', dict(schedule=label, events=h.trace), real_deliv, final['deliv'])
            ok = False
        real_b = sorted(r for b in h.bounces for r in b[1])
        model_b = sorted(f[1] for f in final['fail'] if f[2])
        if real_b != model_b:
            ctx.mismatch('queue-bounces', dict(schedule=label, events=h.trace), real_b, model_b)
            ok = False
    return ok


def _enc_event(e):
    # tuples with nested tuples -> lists; bytes stay bytes
    out = []
    for x in e:
        if isinstance(x, tuple):
            out.append(_enc_event(x))
        else:
            out.append(x)
    return out


# ---------------------------------------------------------------- schedules
class _UuidHub(object):
    def uuid4(self):
        import uuid
        return uuid.uuid4()


def make_backend(kind):
    """real storage backend to put behind the gated store: (storage, cleanup)"""
    if kind == 'disk':
        import tempfile, shutil
        from slimta.diskstorage import DiskStorage
        d = tempfile.mkdtemp(prefix='vp-queue-')
        return DiskStorage(d, d), (lambda: shutil.rmtree(d, ignore_errors=True))
    if kind == 'cloud':
        from slimta.cloudstorage import CloudStorage
        from vp import storefakes
        return CloudStorage(storefakes.FakeObjectStore(_UuidHub())), (lambda: None)
    if kind == 'shelve':
        # the persistence the DictStorage docstring advertises: mappings that hand out COPIES
        import tempfile, shutil, shelve
        d = tempfile.mkdtemp(prefix='vp-queue-shelve-')
        envs = shelve.open(d + '/env')
        metas = shelve.open(d + '/meta')

        def cleanup():
            for sh in (envs, metas):
                try:
                    sh.close()
                except Exception:
                    pass
            shutil.rmtree(d, ignore_errors=True)
        return DictStorage(envs, metas), cleanup
    if kind == 'redis':
        import slimta.redisstorage as redismod
        from vp import storefakes
        st = redismod.RedisStorage(prefix='slimta:')
        st.redis = storefakes.FakeRedis()
        return st, (lambda: None)
    return DictStorage(), (lambda: None)


class Run(object):
    """one schedule driven against the real queue; `choices` records every harness
    decision so that the run can be replayed exactly"""

    def __init__(self, rng, cfg, script=None):
        self.rng = rng
        self.cfg = cfg
        self.script = list(script) if script is not None else None
        self.choices = []
        inner, self.cleanup = make_backend(cfg.get('backend', 'dict'))
        self.h = QH(inner=inner, relay_pool=cfg.get('relay_pool'), relay_kind=cfg.get('relay'))
        self.h.post_write_gate = bool(cfg.get('race_announce'))
        self.h.wait_generator = bool(cfg.get('wait_generator'))
        self.h.cross_codes = bool(cfg.get('cross_codes'))
        if cfg.get('relay_policy'):
            self.h.relay.add_policy(_RewriteDomain())
        self.msgs = 0
        self.flush_epoch = 0
        self.fair = True           # no announcement raced an enqueue or a pending remove
        self.contract = True       # every relay result met the relay contract

    def menu(self):
        h = self.h
        m = []
        if self.msgs < self.cfg['max_msgs']:
            m.append(('enqueue',))
        for idx, g in enumerate(h.gates):
            m.append(('gate', idx))
            if g.kind == 'written' and h.pending('wait'):
                m.append(('race', idx))
                m.append(('race', idx))
        m.append(('advance',))
        if self.cfg.get('flush', True):
            m.append(('flush',))
        return m

    def pick(self, options):
        if self.script is not None:
            c = self.script.pop(0)
        else:
            c = self.rng.randrange(len(options))
        self.choices.append(c)
        return options[c % len(options)]

    def relay_outcome(self, rc):
        kinds = ['ok', 'temp', 'perm', 'other', 'map', 'seq', 'rmap', 'temp', 'gmap']
        if self.cfg.get('junk'):
            kinds.append('junkmap')
        k = self.pick(kinds)
        if k in ('map', 'seq', 'junkmap', 'rmap', 'gmap'):
            alphabet = ['ok', 'perm', 'temp'] + (['junk'] if k == 'junkmap' else [])
            res = tuple(self.pick(alphabet) for _ in rc)
            if 'junk' in res:
                self.contract = False
            return ('map' if k == 'junkmap' else k, res)
        return (k,)

    def step(self):
        h = self.h
        a = self.pick(self.menu())
        if a[0] == 'enqueue':
            n = self.pick([1, 2, 3, 4, 2])
            sender = self.pick(['s@example.com', 's@example.com', ''])
            base = self.msgs * 6
            self.msgs += 1
            rc = [base + j for j in range(n)]
            if self.cfg.get('case_twins') and n >= 2:
                # the second recipient is the first one's case twin (Kim@ / kim@): two mailboxes
                rc[1] = rc[0] + 100
            h.act_enqueue(sender, rc)
            return ('enqueue', sender, n)
        if a[0] == 'advance':
            cands = [1, 5]
            if h.queue.queued:
                nxt = 0 if h.queue.queued[0][0] == INF else int(h.queue.queued[0][0]) - h.clock
                if nxt > 0:
                    cands += [nxt, nxt]
            d = self.pick(cands)
            h.act_advance(d)
            return ('advance', d)
        if a[0] == 'flush':
            self.flush_epoch += 1
            h.flush_epoch = self.flush_epoch
            h.act_flush()
            return ('flush',)
        if a[0] == 'race':
            # store.write() returns AND the storage's announcement of that id is handed to the
            # queue's _wait_store in the same loop iteration, in this order: enqueue() is resumed
            # by the finished write before the scheduler, woken by the announcement, scans the
            # timetable - the id is then in the timetable and active at once
            gw = h.gates[a[1]]
            gwait = h.pending('wait')[0]
            rid = h.rids[gw.mid]
            ts = [t for t, r in h.listing() if norm_id(r) == norm_id(rid)]
            h.gates.remove(gw)
            h.gates.remove(gwait)
            gw.ar.set(None)
            gwait.ar.set([(ts[0] if ts else float(h.clock), rid)])
            h.settle()
            self.fair = False
            return ('race', gw.mid)
        g = h.gates[a[1]]
        payload = None
        if g.kind == 'relay':
            payload = self.relay_outcome(g.info)
        elif g.kind == 'incr':
            payload = self.pick([None, 0, 5, 10, 0, 5] + ([INF] if self.cfg.get('inf_backoff') else []))
        elif g.kind in ('load', 'wait'):
            stored = sorted(h.listing(), key=lambda e: h.ids.get(e[1], -1))
            opts = [[]] + [[e] for e in stored]
            if g.kind == 'load':
                opts.append(stored)
            if self.cfg.get('foreign'):
                opts.append([(float(h.clock), 'foreign%d' % len(h.ids))])
            entries = self.pick(opts)
            for ts, rid in entries:
                mid = h.ids.get(rid)
                if mid is not None and (h.pending('remove', mid) or mid in h.removed):
                    self.fair = False
                if mid is not None and not any(e[0] == 1 and e[1] == mid for e in h.trace):
                    self.fair = False       # announced before enqueue() resumed
            payload = entries
        h.release(g, payload)
        return ('release', g.kind, g.mid, payload)

    def drain(self):
        """let everything finish: relay succeeds, retries are granted once then refused, time passes"""
        h = self.h
        for _ in range(400):
            gs = [g for g in h.gates if g.kind not in ('load', 'wait')]
            if not gs:
                if not h.queue.queued:
                    break
                if h.queue.queued[0][0] == INF:
                    # held until flushed (the backoff answered with an infinite delay)
                    self.flush_epoch += 1
                    h.flush_epoch = self.flush_epoch
                    h.act_flush()
                    continue
                nxt = max(1, int(h.queue.queued[0][0]) - h.clock)
                h.act_advance(nxt)
                continue
            g = gs[0]
            if g.kind == 'relay':
                h.release(g, ('ok',))
            elif g.kind == 'incr':
                h.release(g, 1)
            else:
                h.release(g, None)

    def close(self):
        self.h.close()
        self.cleanup()


def oracle(ctx, run, label, props):
    """the property statements evaluated on what the real queue did"""
    h = run.h
    case = dict(schedule=run.choices, cfg=run.cfg, events=h.trace)
    if 'c12' in props and getattr(h, 'started', False) and h.queue.dead:
        ctx.fail('c12:scheduler-died', case, 'the queue\'s scheduler greenlet (Queue._run) ended with %r: nothing that becomes due from now on is attempted' % (h.queue.exception,))
    if h.load_errors:
        key = 'c12:stored-message-forgotten' if 'c12' in props else ('c01:stored-message-never-loaded' if 'c01' in props else 'c03:load-raises')
        ctx.fail(key, case, 'storage load() raises on the %s backend: %s (the stored messages can not be listed, a restarted queue would never pick them up)' % (run.cfg.get('backend', 'dict'), h.load_errors[0]))
    # C03: one attempt in flight per id; settled recipients never attempted again
    if 'c03' in props:
        if h.overlaps:
            ctx.fail('c03:two-attempts-in-flight', case, 'message ids with overlapping attempts: %r' % h.overlaps)
        if h.resend and run.fair and run.contract:
            ctx.fail('c03:settled-recipient-attempted-again', case, 'resend: %r' % h.resend[:3])
        elif h.resend:
            ctx.count('resend-under-unfair-announcement-or-broken-contract')
    # C12: never early; flush returns
    if 'c12' in props:
        if h.early:
            ctx.fail('c12:attempted-before-due', case, 'early attempts: %r' % h.early[:3])
        if h.flush_returns != h.flush_calls:
            ctx.fail('c12:flush-did-not-return', case, 'flush() called %d times, returned %d times' % (h.flush_calls, h.flush_returns))
    return case


def check_tracked(ctx, run, case, where):
    """C12 not-forgotten / C01: at a quiescent point every stored message the queue knows
    about is in flight or scheduled, and a due entry does not leave the scheduler asleep"""
    h = run.h
    q = h.queue
    queued_ids = set(h.ids.get(rid) for ts, rid in q.queued)
    busy = set(g.mid for g in h.gates if g.mid is not None) | set(b[1] for b in h.blocked)
    for ts, rid in h.listing():
        mid = h.ids[rid]
        known = any(e[0] == 1 and e[1] == mid for e in h.trace) or any(e[0] == 9 and e[2] == mid for e in h.trace)
        if known and mid not in queued_ids and mid not in busy:
            ctx.fail('c12:stored-message-forgotten', case, 'at %s message %d is stored but neither in flight nor in the timetable' % (where, mid))
            return False
    if q.queued and q.wake.waiters:
        first = q.queued[0][0]
        dl = q.wake.waiters[0][1]
        if first <= h.clock or dl is None or dl > first:
            ctx.fail('c12:scheduler-asleep-with-due-entry', case, 'at %s first entry %r clock %r scheduler deadline %r' % (where, first, h.clock, dl))
            return False
    return True


def check_final(ctx, run, case):
    """C01: after the drain every accepted recipient reached a final disposition (or is still stored and scheduled)"""
    h = run.h
    if not run.contract:
        return
    stored = {}
    for ts, rid in h.listing():
        try:
            env, att = h.inner.get(rid)
        except Exception:
            continue
        stored[h.ids[rid]] = set(h.rnum(r) for r in env.recipients)
    bounced = set(r for b in h.bounces for r in b[1])
    for mid, (sender, rcpts) in h.accepted.items():
        for r in rcpts:
            st = h.settled.get((mid, r))
            if st == 'deliv':
                continue
            if st == 'fail' or (mid, r) in h.exhausted:
                if sender and r not in bounced:
                    ctx.fail('c01:failed-recipient-not-bounced', case, 'message %d recipient %d failed for good, sender non-empty, no bounce names it' % (mid, r))
                    return
                continue
            if mid in stored and r in stored[mid]:
                continue
            ctx.fail('c01:recipient-lost', case, 'message %d recipient %d has no final disposition and is not in storage' % (mid, r))
            return


def explore(ctx, props, n_random, steps, cfgs):
    """random schedules (seeded) against the real queue + trace validation against the model"""
    import random as _r
    total_marks = 0
    for k in range(n_random):
        cfg = cfgs[k % len(cfgs)]
        sub = ctx.rng.randrange(1 << 30)
        run = Run(_r.Random(sub), cfg)
        label = dict(seed=sub, cfg=cfg)
        try:
            ok_tracked = True
            for _ in range(steps):
                run.step()
                if ok_tracked and 'c12' in props:
                    ok_tracked = check_tracked(ctx, run, dict(schedule=list(run.choices), cfg=cfg), 'step %d' % len(run.choices))
            case = oracle(ctx, run, label, props)
            mid_trace = len(run.h.trace)
            run.drain()
            if 'c01' in props:
                check_final(ctx, run, dict(schedule=list(run.choices), cfg=cfg, events=run.h.trace))
            oracle(ctx, run, label, props)
            if run.h.errors:
                raise RuntimeError('queue harness fault (not a property verdict): %r' % run.h.errors[:3])
            compare_with_model(ctx, run.h, dict(seed=sub, cfg=cfg, choices=run.choices))
            total_marks += len(run.h.marks)
            ctx.count('relay:%s' % cfg.get('relay', 'stub'))
            kinds = set(e[0] for e in run.h.trace)
            ctx.evaluated(('run', sub, tuple(sorted(cfg.items()))), nontrivial=(len(run.h.attempts) >= 2))
            ctx.count('events', len(run.h.trace))
            ctx.count('attempts', len(run.h.attempts))
            ctx.count('runs-fair' if run.fair else 'runs-with-unfair-announcement')
            ctx.count('backend:%s' % cfg.get('backend', 'dict'))
            for e in run.h.trace:
                ctx.count('event-kind:%d' % e[0])
            for a in run.h.attempts:
                ctx.count('outcome:%s' % (a.get('outcome') or ('pending',))[0])
            if k < 2:
                ctx.sample(dict(cfg=cfg, seed=sub, events=run.h.trace[:40]))
        finally:
            run.close()
    ctx.extra['traces_validated_against_impl'] = ctx.extra.get('traces_validated_against_impl', 0) + n_random
    ctx.extra['states'] = ctx.extra.get('states', 0) + total_marks
    ctx.extra['transitions'] = ctx.dist.get('events', 0)


def replay_run(ctx, case):
    import random as _r
    c = case.get('case', case)
    if isinstance(c.get('schedule'), str):
        # deterministic directed scenarios: run them again and report what the oracles say now
        from vp import core as _core

        class _Echo(object):
            def __init__(self, inner):
                self._c = inner
                self.n = 0

            def __getattr__(self, k):
                return getattr(self._c, k)

            def fail(self, key, case, what):
                self.n += 1
                print('ORACLE', key, '-', what)

            def mismatch(self, kind, case, impl, model):
                self.n += 1
                print('MISMATCH', kind, 'impl:', impl, 'model:', model)
        e = _Echo(ctx)
        props = tuple(p for p in ('c01', 'c03', 'c12') if p == case.get('key', c.get('key', '')).split(':')[0]) or ('c01', 'c03', 'c12')
        if c['schedule'] == 'scripted-restart':
            scripted_restart(e, props, c.get('backend', 'dict'))
        elif c['schedule'] == 'scripted-rounds':
            scripted_rounds(e, props, c.get('backend', 'dict'), tuple(c.get('rcpts', (0, 1, 2, 3))))
        elif c['schedule'] == 'bounded-pools':
            bounded_pool_scenario(e)
        elif c['schedule'] == 'bounded-store-unbounded-relay':
            unbounded_relay_pool_scenario(e)
        elif c['schedule'] == 'bounded-store-requeue':
            bounded_store_pool_requeue_scenario(e)
        elif c['schedule'] == 'bounded-store-announce':
            bounded_store_pool_announce_scenario(e)
        elif c['schedule'] == 'clock-step-back':
            clock_step_back_scenario(e)
        elif c['schedule'] == 'bounded-store-flush':
            bounded_store_pool_flush_scenario(e)
        print('scenario %s on %s: %d oracle failures / mismatches' % (c['schedule'], c.get('backend', '-'), e.n))
        return 1 if e.n else 0
    run = Run(_r.Random(0), c['cfg'], script=c['schedule'])
    try:
        n_script = len(run.script)
        while run.script:
            print(run.step())
        # the verdict of the oracles on this schedule, now
        class _Echo2(object):
            def __init__(self, inner):
                self._c = inner
                self.n = 0

            def __getattr__(self, k):
                return getattr(self._c, k)

            def fail(self, key, case, what):
                self.n += 1
                print('ORACLE', key, '-', what)

            def mismatch(self, kind, case, impl, model):
                self.n += 1
                print('MISMATCH', kind, 'impl:', impl, 'model:', model)
        e2 = _Echo2(ctx)
        keyp = str(case.get('key', '')).split(':')[0]
        props = (keyp,) if keyp in ('c01', 'c03', 'c12') else ('c01', 'c03', 'c12')
        run.script = None          # further choices (drain) are the harness' fixed ones
        oracle(e2, run, dict(cfg=c['cfg']), props)
        run.drain()
        if 'c01' in props:
            check_final(e2, run, dict(schedule=list(run.choices), cfg=c['cfg'], events=run.h.trace))
        oracle(e2, run, dict(cfg=c['cfg']), props)
        print('replayed %d choices: %d oracle failures' % (n_script, e2.n))
        for n, snap in run.h.marks[-1:]:
            print('state:', snap)
        print('attempts:', run.h.attempts)
        print('overlaps:', run.h.overlaps, 'resend:', run.h.resend, 'early:', run.h.early,
              'flush calls/returns:', run.h.flush_calls, run.h.flush_returns)
        return 1 if e2.n else 0
    finally:
        run.close()


def _pool_obs(h):
    """(free store slots, free relay slots) of the real queue's gevent pools"""
    q = h.queue
    return (q.store_pool.free_count(), q.relay_pool.free_count())


def _directed(fn):
    """a directed scenario scripts the harness against the expected behaviour of the real queue; when
    the code under test behaves so differently that the script cannot proceed (an expected gate never
    appears), that is a broken correspondence with the schedule as its description, not a harness crash"""
    import functools

    @functools.wraps(fn)
    def run(ctx, *a, **kw):
        try:
            return fn(ctx, *a, **kw)
        except (IndexError, KeyError) as exc:
            import traceback as _tb
            ctx.mismatch('directed-scenario-cannot-proceed', dict(scenario=fn.__name__, args=[repr(x) for x in a]),
                         'the real queue did not reach the state the scenario expects: %s\n%s' % (exc, _tb.format_exc()[-1200:]),
                         'the scripted schedule (see the scenario docstring) runs to its end on the model')
    return run


@_directed
def bounded_pool_scenario(ctx):
    """D10 (known finding): with bounded store and relay pools a _dequeue greenlet holding the
    only store slot waits for a relay slot while the _attempt greenlet holding the only relay
    slot waits for a store slot (to run _retry_later): nothing moves any more.  The real queue is
    driven through the schedule of theorem C12_bounded_pools_deadlock_refuted (model/QueuePools.v)
    and the pools' free counts are compared with the model after every step."""
    # one store slot is held for good by the _wait_store greenlet, so store_pool=2 leaves one
    h = QH(store_pool=2, relay_pool=1)
    case = dict(schedule='bounded-pools', store_pool=2, relay_pool=1)
    ops = []       # model operations (E_QueuePools.dec_pop)
    obs = []       # real (free_s, free_r) after each
    try:
        if h.pending('load'):
            h.release(h.pending('load')[0], [])
        obs.append(_pool_obs(h))                          # state after start(): pinit (Some 2) (Some 1) true
        h.act_enqueue('s@example.com', [0])
        h.release(h.pending('write')[0])                 # m0 stored, attempt A0 takes the relay slot
        if not h.pending('relay', 0):
            ctx.note('bounded-pool scenario could not be set up (no relay gate)')
            return
        ops.append([2, 0]); obs.append(_pool_obs(h))      # OAttempt 0
        # a second stored message is announced and becomes due
        env = Envelope('s@example.com', ['r6@example.com'])
        rid = h.inner.write(env, 0.0)
        mid = h.new_id(rid)
        h.accepted[mid] = (True, [6])
        g = h.pending('wait')[0]
        h.release(g, [(0.0, rid)])
        h.act_advance(1)                                  # scheduler dispatches m1: _dequeue takes the store slot
        ops.append([1, 1]); ops.append([0, 0, 1]); obs.append(None); obs.append(_pool_obs(h))     # ODispatch 1; EAcqS 1
        if h.pending('get', mid):
            h.release(h.pending('get', mid)[0])           # ... and now waits for a relay slot
        ops.append([0, 1, 1]); obs.append(_pool_obs(h))   # EGot 1
        h.release(h.pending('relay', 0)[0], ('temp',))     # A0 fails: wants a store slot for _retry_later
        ops.append([0, 3, 0]); obs.append(_pool_obs(h))   # EDone 0
        for _ in range(5):
            h.act_advance(10)
        final = _pool_obs(h)
        progressed = bool(h.pending('incr', 0)) or any(a['id'] == mid for a in h.attempts)
        ctx.count('bounded-pool-scenario')
        ctx.evaluated(('bounded-pools', 1, 1))
        # correspondence with model/QueuePools.v
        states = ctx.model.call('cq_pools', [[2], [1], 1, ops])
        model_obs = []
        for st in states:
            fs, fr, tasks, stuck = st
            model_obs.append((fs[0] if fs else None, fr[0] if fr else None))
        real_obs = [o for o in obs]
        for k, o in enumerate(real_obs):
            if o is not None and tuple(model_obs[k]) != tuple(o):
                ctx.mismatch('queue-pools', dict(case, ops=ops, at=k), real_obs, model_obs)
                break
        model_stuck = bool(states[-1][3])
        if model_stuck == progressed or tuple(model_obs[-1]) != tuple(final):
            ctx.mismatch('queue-pools-final', dict(case, ops=ops), dict(progressed=progressed, free=final), dict(stuck=model_stuck, free=model_obs[-1]))
        if not progressed:
            ctx.fail('c12:bounded-pools-deadlock', case,
                     'store_pool=2 (one slot held by _wait_store), relay_pool=1: after a transient failure of message 0 while message 1 was being dequeued, '
                     'neither the retry bookkeeping of 0 nor an attempt of 1 ever starts (pending gates: %r)' % (h.gates,))
    finally:
        h.close()


@_directed
def unbounded_relay_pool_scenario(ctx):
    """the same schedule with relay_pool=None (theorem C12_relay_unbounded_never_stuck): everything moves on"""
    h = QH(store_pool=2, relay_pool=None)
    case = dict(schedule='bounded-store-unbounded-relay', store_pool=2)
    try:
        if h.pending('load'):
            h.release(h.pending('load')[0], [])
        h.act_enqueue('s@example.com', [0])
        h.release(h.pending('write')[0])
        env = Envelope('s@example.com', ['r6@example.com'])
        rid = h.inner.write(env, 0.0)
        mid = h.new_id(rid)
        h.accepted[mid] = (True, [6])
        h.release(h.pending('wait')[0], [(0.0, rid)])
        h.act_advance(1)
        if h.pending('get', mid):
            h.release(h.pending('get', mid)[0])
        if h.pending('relay', 0):
            h.release(h.pending('relay', 0)[0], ('temp',))
        progressed = bool(h.pending('incr', 0)) and bool(h.pending('relay', mid))
        ctx.evaluated(('bounded-store-unbounded-relay', 2))
        if not progressed:
            ctx.fail('c12:stuck-with-unbounded-relay-pool', case, 'store_pool=2, relay_pool=None: after the same schedule as the bounded-pool deadlock the retry bookkeeping of message 0 and the attempt of message 1 must both be under way; pending gates: %r' % (h.gates,))
    finally:
        h.close()


@_directed
def bounded_store_pool_requeue_scenario(ctx):
    """store_pool=2 (one slot is _wait_store's), relay pool unbounded (theorem
    C12_relay_unbounded_never_stuck says the slot discipline cannot get stuck): while the retry
    bookkeeping of message X occupies the free store slot, message A comes due and the scheduler
    blocks in _dispatch waiting for a store slot (it holds queued_lock while it scans).  When X's
    bookkeeping finishes it must be able to re-queue X, free the slot and let A be read; flush()
    must return."""
    h = QH(store_pool=2, relay_pool=None)
    case = dict(schedule='bounded-store-requeue', store_pool=2)
    try:
        if h.pending('load'):
            h.release(h.pending('load')[0], [])
        h.act_enqueue('s@example.com', [0])
        h.release(h.pending('write')[0])
        h.release(h.pending('relay', 0)[0], ('temp',))      # X fails: _retry_later takes the free store slot
        if not h.pending('incr', 0):
            ctx.note('bounded-store scenario could not be set up (no incr gate)')
            return
        env = Envelope('s@example.com', ['r6@example.com'])
        rid = h.inner.write(env, 0.0)
        mid = h.new_id(rid)
        h.accepted[mid] = (True, [6])
        h.release(h.pending('wait')[0], [(0.0, rid)])      # A announced and due: the scheduler wants a store slot
        h.act_advance(1)
        blocked_before = bool(h.pending('get', mid))
        h.release(h.pending('incr', 0)[0], 0)
        if h.pending('set_ts', 0):
            h.release(h.pending('set_ts', 0)[0])
        for _ in range(3):
            h.act_advance(1)
        parked_ids = set(b[1] for b in h.blocked_store)
        a_read = bool(h.pending('get', mid)) or any(a['id'] == mid for a in h.attempts) or mid in parked_ids
        x_again = bool(h.pending('get', 0)) or len([a for a in h.attempts if a['id'] == 0]) > 1 or any(i == 0 for t, i in [(t, h.ids.get(r)) for t, r in h.queue.queued]) or 0 in parked_ids
        h.act_flush()
        # with a bounded store pool flush() itself waits for a store slot for each message it
        # dispatches (back-pressure, not the scheduler loop): let the storage and relay calls finish
        for _ in range(40):
            gs = [g for g in h.gates if g.kind not in ('load', 'wait')]
            if not gs:
                break
            g = gs[0]
            h.release(g, ('ok',) if g.kind == 'relay' else (1 if g.kind == 'incr' else None))
        ctx.evaluated(('bounded-store-requeue', 2))
        ctx.count('bounded-store-requeue-scenario')
        if blocked_before:
            ctx.note('bounded-store scenario: message A was read before the retry bookkeeping finished (a store slot was free)')
        if not (a_read and x_again) or h.flush_returns < h.flush_calls:
            ctx.fail('c12:stuck-with-unbounded-relay-pool', case,
                     'store_pool=2, relay_pool=None: the re-queue of message 0 ran while the scheduler waited for a store slot to read message 1; '
                     'afterwards message 1 read/attempted: %r, message 0 scheduled again: %r, flush() calls/returns: %d/%d; pending gates: %r'
                     % (a_read, x_again, h.flush_calls, h.flush_returns, h.gates))
    finally:
        h.close()


@_directed
def bounded_store_pool_announce_scenario(ctx):
    """store_pool=2 (one slot is _wait_store's), relay pool unbounded.  While the scheduler is
    parked inside _check_ready (its _dispatch waits for a store slot), the storage announces another,
    OLDER message: the entry is inserted in FRONT of the timetable entries being scanned.  Every stored
    message the queue knows about must still be in flight or scheduled afterwards."""
    h = QH(store_pool=2, relay_pool=None)
    case = dict(schedule='bounded-store-announce', store_pool=2)
    try:
        if h.pending('load'):
            h.release(h.pending('load')[0], [])
        h.act_advance(5)
        h.act_enqueue('s@example.com', [0])
        h.release(h.pending('write')[0])
        h.release(h.pending('relay', 0)[0], ('temp',))      # X fails: its _retry_later holds the free store slot
        if not h.pending('incr', 0):
            ctx.note('bounded-store announce scenario could not be set up (no incr gate)')
            return
        ids = {}
        for name, ts, r in (('A', 2.0, 6), ('B', 1.0, 12)):
            env = Envelope('s@example.com', ['r%d@example.com' % r])
            rid = h.inner.write(env, ts)
            ids[name] = (h.new_id(rid), rid, ts)
            h.accepted[ids[name][0]] = (True, [r])
        h.release(h.pending('wait')[0], [(ids['A'][2], ids['A'][1])])     # A announced, due: scheduler blocks dispatching it
        parked = not h.pending('get', ids['A'][0])
        h.release(h.pending('wait')[0], [(ids['B'][2], ids['B'][1])])     # B (older) announced while the scan is parked
        h.release(h.pending('incr', 0)[0], 30)
        if h.pending('set_ts', 0):
            h.release(h.pending('set_ts', 0)[0])
        for _ in range(3):
            h.act_advance(1)
        ctx.evaluated(('bounded-store-announce', 2))
        ctx.count('bounded-store-announce-scenario')
        if not parked:
            ctx.note('bounded-store announce scenario: the scheduler was not parked (a store slot was free)')
        q = h.queue
        queued = set(h.ids.get(r) for t, r in q.queued)
        busy = set(g.mid for g in h.gates if g.mid is not None) | set(b[1] for b in h.blocked) | set(b[1] for b in h.blocked_store)
        for name in ('A', 'B'):
            mid = ids[name][0]
            attempted = any(a['id'] == mid for a in h.attempts)
            if mid not in queued and mid not in busy and not attempted:
                ctx.fail('c12:stored-message-forgotten', case,
                         'store_pool=2, relay_pool=None: message %s (announced with timestamp %d while the scheduler was waiting for a store slot inside _check_ready) '
                         'is stored but neither in flight nor in the timetable; timetable %r, active %r, pending gates %r'
                         % (name, ids[name][2], sorted((int(t), h.ids.get(r)) for t, r in q.queued), sorted(h.ids.get(r) for r in q.active_ids), h.gates))
    finally:
        h.close()


@_directed
def bounded_store_pool_flush_scenario(ctx):
    """store_pool=2, relay unbounded: flush() is called while the scheduler is parked inside
    _check_ready (holding queued_lock, waiting for a store slot).  flush() must still make every
    waiting message - also one that is not due - be attempted, and return."""
    h = QH(store_pool=2, relay_pool=None)
    case = dict(schedule='bounded-store-flush', store_pool=2)
    try:
        if h.pending('load'):
            h.release(h.pending('load')[0], [])
        h.act_advance(5)
        h.act_enqueue('s@example.com', [0])
        h.release(h.pending('write')[0])
        ids = {}
        for name, ts, r in (('LATER', 5000.0, 12), ('A', 2.0, 6)):
            env = Envelope('s@example.com', ['r%d@example.com' % r])
            env.timestamp = 0.0
            rid = h.inner.write(env, ts)
            ids[name] = (h.new_id(rid), rid, ts)
            h.accepted[ids[name][0]] = (True, [r])
        h.release(h.pending('wait')[0], [(ids['LATER'][2], ids['LATER'][1])])     # in the timetable, due in an hour
        h.release(h.pending('relay', 0)[0], ('temp',))      # X's retry bookkeeping takes the free store slot
        if not h.pending('incr', 0):
            ctx.note('bounded-store flush scenario could not be set up (no incr gate)')
            return
        h.release(h.pending('wait')[0], [(ids['A'][2], ids['A'][1])])             # A due: the scheduler parks in _dispatch
        h.act_flush()                                                             # flush while the lock is held
        h.release(h.pending('incr', 0)[0], 30)
        if h.pending('set_ts', 0):
            h.release(h.pending('set_ts', 0)[0])
        later = ids['LATER'][0]
        for _ in range(60):
            gs = [g for g in h.gates if g.kind not in ('load', 'wait')]
            if not gs:
                break
            g = gs[0]
            h.release(g, ('ok',) if g.kind == 'relay' else (1 if g.kind == 'incr' else None))
        ctx.evaluated(('bounded-store-flush', 2))
        ctx.count('bounded-store-flush-scenario')
        attempted = any(a['id'] == later for a in h.attempts)
        if not attempted or h.flush_returns < h.flush_calls:
            ctx.fail('c12:flush-did-not-attempt-every-waiting-message', case,
                     'store_pool=2, relay_pool=None: flush() was called while the scheduler was waiting for a store slot inside _check_ready; '
                     'afterwards the message that was not yet due (timestamp %d) attempted: %r; flush() calls/returns %d/%d; timetable %r'
                     % (ids['LATER'][2], attempted, h.flush_calls, h.flush_returns, sorted((ts_int(t), h.ids.get(r)) for t, r in h.queue.queued)))
    finally:
        h.close()


@_directed
def clock_step_back_scenario(ctx):
    """the wall clock steps BACK (NTP correction, VM resume) while the queue runs: due times written
    afterwards are earlier in absolute terms than times the scheduler has already seen; a message
    re-queued after the step must still not be attempted before the time the backoff chose.
    Implementation-only (the model's clock is monotone: outside the stated quantifier, judged
    because the statement itself does not depend on monotonicity)."""
    h = QH()
    case = dict(schedule='clock-step-back')
    try:
        if h.pending('load'):
            h.release(h.pending('load')[0], [])
        h.act_advance(1000)
        h.act_enqueue('s@example.com', [0])
        h.release(h.pending('write')[0])
        h.release(h.pending('relay', 0)[0], ('temp',))
        h.release(h.pending('incr', 0)[0], 10)
        h.release(h.pending('set_ts', 0)[0])
        h.act_advance(10)                                   # A retried on time at 1010
        if h.pending('get', 0):
            h.release(h.pending('get', 0)[0])
        if h.pending('relay', 0):
            h.release(h.pending('relay', 0)[0], ('ok',))
        for g in list(h.pending('remove', 0)):
            h.release(g)
        # the clock goes back by 600 s
        h.clock -= 600
        h.queue.wake.fire(h.clock)
        h.settle()
        h.act_enqueue('s@example.com', [6])
        h.release(h.pending('write')[0])
        mid = max(v for v in h.ids.values() if v < 1000)
        h.release(h.pending('relay', mid)[0], ('temp',))
        h.release(h.pending('incr', mid)[0], 60)
        h.release(h.pending('set_ts', mid)[0])
        due = h.due.get(mid)
        early = []
        for _ in range(5):
            h.act_advance(10)
            if h.pending('get', mid) or len([a for a in h.attempts if a['id'] == mid]) > 1:
                early.append(h.clock)
                break
        ctx.evaluated(('clock-step-back', 1))
        ctx.count('clock-step-back-scenario')
        if early and due is not None and early[0] < due:
            ctx.fail('c12:attempted-before-due', case, 'after the wall clock stepped back by 600 s message %d, re-queued for %r by the backoff, is dispatched at %r' % (mid, due, early[0]))
        h.act_advance(60)
        if not (h.pending('get', mid) or len([a for a in h.attempts if a['id'] == mid]) > 1):
            ctx.fail('c12:stored-message-forgotten', case, 'after the clock step message %d (due %r) is not dispatched at %r' % (mid, due, h.clock))
    finally:
        h.close()


@_directed
def scripted_rounds(ctx, props, backend, rcpts=(0, 1, 2, 3)):
    """directed multi-round partial deliveries (the index patterns random schedules rarely hit):
    [a,b,c,d]: round 1 settles a, round 2 settles c (a LARGER relative index than round 1), round 3 the rest.
    With rcpts=(100, 0, 2, 3) a is the case twin of b (R0@ / r0@): settled a, unsettled b."""
    inner, cleanup = make_backend(backend)
    h = QH(inner=inner)
    label = dict(schedule='scripted-rounds', backend=backend, rcpts=list(rcpts))
    a_, b_, c_, d_ = rcpts
    try:
        if h.pending('load'):
            h.release(h.pending('load')[0], [])
        h.act_enqueue('s@example.com', [a_, b_, c_, d_])
        h.release(h.pending('write')[0])
        plan = [('ok', 'temp', 'temp', 'temp'), ('temp', 'ok', 'temp'), ('perm', 'temp'), ('ok',)]
        expect = [[a_, b_, c_, d_], [b_, c_, d_], [b_, d_], [d_]]
        seen = []
        for rnd, res in enumerate(plan):
            g = h.pending('relay', 0)
            if not g:
                break
            seen.append(list(g[0].info))
            # the result mapping comes in recipient order, reversed and interleaved in turn
            h.release(g[0], (('map', 'rmap', 'gmap', 'map')[rnd % 4], res))
            if 'temp' not in res:
                break
            for kind in ('incr', 'set_ts', 'set_deliv'):
                gg = h.pending(kind, 0)
                if gg:
                    h.release(gg[0], 0 if kind == 'incr' else None)
            h.act_advance(1)
            gg = h.pending('get', 0)
            if gg:
                h.release(gg[0])
        for gg in list(h.pending('remove', 0)):
            h.release(gg)
        ctx.evaluated(('scripted-rounds', backend))
        ctx.count('scripted-rounds:' + backend)
        case = dict(label, attempts=seen, events=h.trace)
        if 'c03' in props or 'c01' in props:
            if seen != expect[:len(seen)] or len(seen) != len(expect):
                ctx.fail('c03:settled-recipient-attempted-again' if 'c03' in props else 'c01:recipient-lost', case,
                         'recipient lists of the successive attempts on %s storage: %r, expected %r' % (backend, seen, expect))
        compare_with_model(ctx, h, label)
    finally:
        h.close()
        cleanup()


def _real_load(ctx, props, inner, case, where):
    """the backend's own start-up listing; a raising load() means stored mail is never picked up"""
    try:
        return list(inner.load())
    except Exception as exc:
        key = 'c12:stored-message-forgotten' if 'c12' in props else ('c01:stored-message-never-loaded' if 'c01' in props else 'c03:load-raises')
        ctx.fail(key, case, '%s: storage load() raises %s: %s; the messages already in storage are never announced to the queue' % (where, type(exc).__name__, exc))
        return None


@_directed
def scripted_restart(ctx, props, backend):
    """process restart over a REAL backend: phase 1 leaves three messages in storage at different
    points of their life (retry scheduled after a partial round; relay attempt in flight; crash between
    increment_attempts and set_timestamp), the Queue object is thrown away, a fresh Queue is started
    over the same storage with the backend's REAL load() listing (and, for redis, the REAL pending
    announcements from wait()).  The second phase is validated against the model started with
    `start_at store next_id clock` (theorems C12_restart_resumes / C12_not_forgotten_after_restart)."""
    inner, cleanup = make_backend(backend)
    label = dict(schedule='scripted-restart', backend=backend)
    h1 = h2 = None
    try:
        h1 = QH(inner=inner)
        if h1.pending('load'):
            h1.release(h1.pending('load')[0], [])
        h1.act_advance(3)
        h1.act_enqueue('s@example.com', [0, 1])
        h1.release(h1.pending('write')[0])
        h1.release(h1.pending('relay', 0)[0], ('map', ('ok', 'temp')))
        h1.release(h1.pending('incr', 0)[0], 5)
        h1.release(h1.pending('set_ts', 0)[0])
        h1.release(h1.pending('set_deliv', 0)[0])
        h1.act_advance(1)
        h1.act_enqueue('', [6])
        h1.release(h1.pending('write')[0])          # relay attempt of message 1 stays in flight
        h1.act_enqueue('s@example.com', [12, 13])
        h1.release(h1.pending('write')[0])
        h1.release(h1.pending('relay', 2)[0], ('temp',))
        h1.release(h1.pending('incr', 2)[0], 0)       # crash before set_timestamp of message 2
        compare_with_model(ctx, h1, dict(label, phase=1))
        clock, ids = h1.clock, dict(h1.ids)
        h1.close()
        h1 = None
        case = dict(label, phase=2)
        expect = {0: [1], 1: [6], 2: [12, 13]}
        if backend == 'redis':
            # a writer that died between HSETNX(envelope) and the pipeline (timestamp, attempts, RPUSH)
            # leaves a hash holding only the envelope: it is an accepted-looking message the start-up
            # load must cope with (HEAD lists it with the current time) and that must not keep the
            # others from loading
            import pickle
            import slimta.redisstorage as redismod
            orphan = Envelope('s@example.com', ['r20@example.com'])
            orphan.parse(b'From: sender@example.com\r\nSubject: half written\r\n\r\nbody\r\n')
            inner.redis.hsetnx(inner._get_key('0rphan'), 'envelope', pickle.dumps(orphan, pickle.HIGHEST_PROTOCOL))
            ids['0rphan'] = len(ids)
            expect[ids['0rphan']] = [20]

            class _T(object):
                @staticmethod
                def time():
                    return float(clock)
            old_time = getattr(redismod, 'time', None)
            redismod.time = _T
            try:
                entries = _real_load(ctx, props, inner, case, 'restart with a half-written entry')
            finally:
                if old_time is None:
                    del redismod.time
                else:
                    redismod.time = old_time
        else:
            entries = _real_load(ctx, props, inner, case, 'restart')
        if entries is None:
            return
        idmap = _IdMap(ids)
        st0 = []
        for ts, rid in entries:
            env, att = inner.get(rid)
            st0.append([idmap[rid], 1 if env.sender else 0, bytes(QH.rnum(None, r) for r in env.recipients), att, int(ts)])
        st0.sort()
        nx = len(ids)
        h2 = QH(inner=inner, ids=ids, clock=clock, init=(st0, nx, clock), start=False)
        if backend == 'redis':
            h2.volatile_ts[ids['0rphan']] = clock
        h2.queue.start()
        h2.started = True
        h2.settle()
        entries.sort(key=lambda e: idmap[e[1]])
        h2.release(h2.pending('load')[0], entries)
        # announcements the dead process never consumed (redis keeps them in its list)
        for _ in range(6):
            ann = []
            if backend == 'redis':
                ann = inner.wait()
            g = h2.pending('wait')
            if not ann or not g:
                break
            h2.release(g[0], ann)
        h2.act_advance(10)
        mids = sorted(ids.values())
        gets = [(g.kind, g.mid) for g in h2.gates if g.kind == 'get']
        case = dict(label, phase=2, events=h2.trace, gets=gets)
        ctx.evaluated(('scripted-restart', backend))
        ctx.count('scripted-restart:' + backend)
        if sorted(m for k, m in gets) != mids:
            dup = [m for m in set(m for k, m in gets) if [x for k, x in gets].count(m) > 1 or m >= 1000]
            if dup:
                key = 'c03:two-attempts-in-flight' if 'c03' in props else ('c12:stored-message-forgotten' if 'c12' in props else 'c01:recipient-lost')
                ctx.fail(key, case, 'after a restart on %s storage the queue dequeues %r for the stored messages %r: one message is taken for two (its id comes back in two representations) or an id the storage never issued is dequeued' % (backend, gets, mids))
            else:
                key = 'c12:stored-message-forgotten' if 'c12' in props else ('c01:recipient-lost' if 'c01' in props else 'c03:settled-recipient-attempted-again')
                ctx.fail(key, case, 'after a restart on %s storage and 10 s the queue dequeues %r, stored and due: %r' % (backend, gets, mids))
            return
        for g in list(h2.pending('get')):
            h2.release(g)
        seen = {}
        for m in mids:
            g = h2.pending('relay', m)
            if g:
                seen[m] = list(g[0].info)
        if seen != expect:
            key = 'c03:settled-recipient-attempted-again' if 'c03' in props else ('c01:recipient-lost' if 'c01' in props else 'c12:stored-message-forgotten')
            ctx.fail(key, dict(case, attempts=seen), 'recipients attempted after the restart on %s storage: %r, expected %r (recipient 0 of message 0 was settled and marked before the crash)' % (backend, seen, expect))
            return
        for m in mids:
            h2.release(h2.pending('relay', m)[0], ('ok',))
        for g in list(h2.pending('remove')):
            h2.release(g)
        left = _real_load(ctx, props, inner, case, 'after the restarted queue delivered everything')
        if left:
            key = 'c01:recipient-lost' if 'c01' in props else 'c12:stored-message-forgotten'
            ctx.fail(key, case, 'messages still stored after every attempt succeeded: %r' % (left,))
        if h2.overlaps and 'c03' in props:
            ctx.fail('c03:two-attempts-in-flight', case, 'overlapping attempts after the restart: %r' % h2.overlaps)
        compare_with_model(ctx, h2, dict(label, phase=2))
    finally:
        for h in (h1, h2):
            if h is not None:
                h.close()
        cleanup()
